"""Run checks against a seeded change without touching /repo or the committed evidence.

usage: seedtest.py <patch.diff> <tier> <Cxx> [<Cyy> ...]
A scratch copy of /repo/pytableaux gets the patch; checks run with VERIF_REPO pointing at it and with
evidence / replays redirected to the scratch directory.  Prints one line per check: id, exit code, summary.
"""
import os
import shutil
import subprocess
import sys
import tempfile

HERE = os.path.dirname(os.path.dirname(os.path.abspath(__file__)))


def main():
    patch, tier, props = sys.argv[1], sys.argv[2], sys.argv[3:]
    d = tempfile.mkdtemp(prefix='seedrun-')
    try:
        shutil.copytree('/repo/pytableaux', os.path.join(d, 'pytableaux'))
        r = subprocess.run(['patch', '-p1', '-s', '-i', os.path.abspath(patch)], cwd=d, capture_output=True, text=True)
        if r.returncode != 0:
            print('PATCH-FAILED', r.stdout[-500:], r.stderr[-500:])
            return 2
        env = dict(os.environ, VERIF_REPO=d, VERIF_EVIDENCE_DIR=os.path.join(d, 'evidence'), VERIF_OUT_DIR=os.path.join(d, 'out'))
        for p in props:
            r = subprocess.run([os.path.join(HERE, 'check'), p, '--tier', tier], env=env, capture_output=True, text=True)
            lines = [l for l in r.stdout.splitlines() if l.startswith(p) or l.startswith('  ') and 'clause' in l][:6]
            groups = []
            grab = False
            for l in r.stdout.splitlines():
                if l.startswith('new violations by group'):
                    grab = True
                    continue
                if grab and l.startswith('  ') and not l.startswith('  signature'):
                    groups.append(l.strip()[:200])
                else:
                    grab = grab and l.startswith('  ')
            print(f'{p} exit={r.returncode} :: ' + (' | '.join(groups[:4]) if groups else (r.stdout.strip().splitlines() or [''])[-1][:200]))
            if r.returncode == 2:
                print('   stderr:', r.stderr[-600:])
    finally:
        shutil.rmtree(d, ignore_errors=True)
    return 0


if __name__ == '__main__':
    sys.exit(main())
