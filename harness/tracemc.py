"""Trace validation of real proofs against the operational rule-table model (spec/TraceMC.tla).

Every step of every recorded proof (recorder level 'full') is projected to
  [kind, rule, n = target node, adds = groups of added nodes, pre = nodes of the branch BEFORE the step]
and TLC decides, per logic, whether it is a step the rule table (extracted from the real rule objects by the C04
driver) allows on that branch.  Used by C01 (sound rules + every real step is a table step => valid verdicts are
sound) and by C06 (witness steps use fresh items).
"""
import json
from collections import defaultdict

import common as C
import proofs as P

GEN_CFG = "SPECIFICATION GenSpec\nPOSTCONDITION GenPost\nCHECK_DEADLOCK FALSE\n"
VAL_CFG = "SPECIFICATION Spec\nINVARIANT Publish\nPOSTCONDITION Post\nCHECK_DEADLOCK FALSE\n"
DUMMY = {'k': '', 's': [], 'd': '', 'w': -1, 'w1': -1, 'w2': -1}
KEYS = ('k', 's', 'd', 'w', 'w1', 'w2')


def _node(x):
    return {k: x[k] for k in KEYS}


def steps_of(rec):
    """the compact steps of one 'full' record"""
    out = []
    prev = None
    for ev in rec['events']:
        st = ev['state']
        en = ev['entry']
        if ev['e'] == 'step' and prev is not None and en['rule'] and en['branch'] >= 0:
            b = prev['branches'][en['branch']]
            pre = [_node(prev['nodes'][k]) for k in b['nodes']]
            pre = [x for x in pre if x['k'] in ('s', 'a')]
            kind = 'closure' if en['closure'] else ('quit' if en['flag'] == 'quit' else 'rule')
            n = _node(st['nodes'][en['node']]) if en['node'] >= 0 else dict(DUMMY)
            if n['k'] not in ('s', 'a'):
                n = dict(DUMMY)
            adds = [[_node(x) for x in g if x['k'] in ('s', 'a')] for g in en['adds']]
            out.append({'kind': kind, 'rule': en['rule'], 'n': n, 'adds': adds, 'pre': pre})
        prev = st
    return out


def rule_tables(d, tag):
    """rule rows of all logics (operator shapes, quantifier and modal shapes recorded with one constant / world present)"""
    g = C.tlc('C04_Exact', GEN_CFG, env={'CASES': '/dev/null'}, out_name='cases.ndjson', tag=f'{tag}tgen', timeout=3000)
    shapes = d / f'{tag}-tshapes.ndjson'
    with open(shapes, 'w') as f:
        for line in open(g.out_path):
            x = json.loads(line)
            if x['kind'] == 'op' or (x['kind'] in ('quant', 'modal') and x['k'] == 1):
                f.write(line)
    ns = 12
    C.run_drivers_parallel([('d_rules.py', [shapes, d / f'{tag}-trules{k}.ndjson', k, ns], {'hooks': False}) for k in range(ns)])
    by_logic = defaultdict(list)
    for k in range(ns):
        for line in open(d / f'{tag}-trules{k}.ndjson'):
            by_logic[json.loads(line)['logic']].append(line)
    files = {}
    for L, lines in by_logic.items():
        files[L] = d / f'{tag}-trules-{L}.ndjson'
        files[L].write_text(''.join(lines))
    return files


def validate(rep, records, d, tag, only=None, kind='step_outside_model'):
    """records: iterable of 'full' proof records.  Reports one violation per proof with a step outside the model
    (`only`: a predicate on clause names that selects the clauses a property is about)."""
    tables = rule_tables(d, tag)
    by_logic = defaultdict(list)
    nsteps = 0
    kinds = defaultdict(int)
    for r in records:
        if r.get('raised'):
            continue
        steps = steps_of(r)
        if not steps:
            continue
        nsteps += len(steps)
        for s in steps:
            kinds[s['kind'] if s['kind'] != 'rule' else ('frame' if s['rule'] in ('Reflexive', 'Transitive', 'Symmetric', 'Serial')
                                                            else 'identity' if s['rule'] == 'IdentityIndiscernability' else 'rule')] += 1
        by_logic[r['logic']].append({'id': r['id'], 'logic': r['logic'], 'argstr': r['argstr'], 'steps': steps})
    calls = []
    order = []
    for L, cases in sorted(by_logic.items()):
        # large logics are split so that the TLC runs stay balanced
        for k, sh in enumerate(C.shard(cases, max(1, len(cases) // 150))):
            f = d / f'{tag}-tcases-{L}-{k}.ndjson'
            C.write_ndjson(f, sh)
            calls.append(dict(module='TraceMC', cfg=VAL_CFG, env={'CASES': f, 'RULES': tables[L]}, tag=f'{tag}tr{L}{k}', timeout=3400, xmx='2g'))
            order.append(len(sh))
    total = 0
    nbad = 0
    for res, n in zip(C.tlc_parallel(calls), order):
        if res.json is None:
            raise C.MachineryError('TraceMC: validator wrote no result\n' + res.out[-1500:])
        if res.json['n'] != n:
            raise C.MachineryError('TraceMC: TLC validated a different number of proofs')
        total += n
        rep.add_tlc(res, traces=n)
        for f in res.json['bad']:
            if only is not None and not only(f['clause']):
                continue
            nbad += 1
            rep.violation({'kind': kind, 'clause': f['clause'], 'logic_family': P.family(f['logic']), 'rule': f['rule'],
                           'root': '', 'logic': f['logic'], 'argstr': f['argstr']}, f)
    rep.cov['trace_model_proofs'] = total
    rep.cov['trace_model_steps'] = nsteps
    rep.cov['trace_model_step_kinds'] = dict(kinds)
    return nbad
