"""C04 (frame rules) driver: run a logic's frame rules on a branch of access nodes.

usage: d_frames.py <cases.ndjson> <out.ndjson> <shard> <nshards>
Every world carries the sentence A (designated / plain as the logic's trunk
does for a premise); the access nodes follow; then Tableau.build().
"""
import json
import sys

from pytableaux.lang import Argument, Atomic
from pytableaux.logics import registry
from pytableaux.proof import Tableau


def premise_style(logic):
    "node props the logic's trunk gives a premise (designation marker or not)"
    t = Tableau(logic, Argument('a:b'))
    n = t[0][0]      # first trunk node = the premise
    return {k: n[k] for k in ('designated',) if n.get(k) is not None}


def run_case(c, style):
    tab = Tableau(c['logic'])
    b = tab.branch()
    A = Atomic(0, 0)
    if not c.get('bare'):
        for w in c['worlds']:
            b.append(dict(style, sentence=A, world=w))
    for w1, w2 in c['access']:
        b.append({'world1': w1, 'world2': w2})
    if c.get('split'):
        b.append(dict(style, sentence=Atomic(1, 0) | Atomic(2, 0), world=0))
    tab.emit(Tableau.Events.AFTER_TRUNK_BUILD, tab)
    tab.build()
    results = [[list(p) for p in sorted({(n['world1'], n['world2']) for n in br if n.get('world1') is not None})] for br in tab]
    flags = sum(1 for br in tab for n in br if n.get('flag') is not None)
    return dict(results=results, nbranches=len(tab), closed=int(len(tab.open) == 0),
                flags=flags, steps=len(tab.history))


def main(cases, out, shard, nshards):
    shard, nshards = int(shard), int(nshards)
    registry.import_all()
    styles = {}
    with open(cases) as f, open(out, 'w') as o:
        for k, line in enumerate(f):
            if k % nshards != shard:
                continue
            c = json.loads(line)
            try:
                if c['logic'] not in styles:
                    styles[c['logic']] = premise_style(c['logic'])
                c.update(run_case(c, styles[c['logic']]), err='')
            except Exception as e:
                c.update(results=[], nbranches=0, closed=0, flags=0, steps=0, err=f'{type(e).__name__}: {e}'[:200])
            o.write(json.dumps(c) + '\n')


if __name__ == '__main__':
    main(*sys.argv[1:])
