"""C14 driver.

usage: d_lexorder.py matrix  <sents.ndjson> <out.ndjson> <maxitems> <seed>
       d_lexorder.py rebuild <sents.ndjson> <out.ndjson> <shard> <nshards>
       d_lexorder.py history <hist.ndjson>  <out.ndjson>      (ITEM_CACHE_SIZE from the environment)
"""
import copy
import json
import pickle
import random
import sys

from enc import dec_sent, enc_param, enc_pred, enc_sent
from pytableaux.lang import (Argument, Atomic, Constant, LexicalAbc, Operated, Operator, Parameter, Predicate,
                             Predicated, Quantified, Quantifier, Sentence, Variable)


def enc_item(x):
    t = type(x).__name__
    if isinstance(x, Predicate):
        return ['Predicate', enc_pred(x)]
    if t in ('Constant', 'Variable'):
        return [t, enc_param(x)]
    if isinstance(x, Quantifier):
        return ['Quantifier', x.name]
    if isinstance(x, Operator):
        return ['Operator', x.name]
    if isinstance(x, Sentence):
        return [t, enc_sent(x)]
    if isinstance(x, Argument):
        return ['Argument', {'prems': [enc_sent(p) for p in x.premises], 'conc': enc_sent(x.conclusion)}]
    raise TypeError(t)


def subitems(s, acc):
    acc.append(s)
    if type(s) is Predicated:
        acc.append(s.predicate)
        acc.extend(s.params)
    elif type(s) is Quantified:
        acc.extend([s.quantifier, s.variable])
        subitems(s.sentence, acc)
    elif type(s) is Operated:
        acc.append(s.operator)
        for x in s.operands:
            subitems(x, acc)


def b(x):
    return int(bool(x))


def matrix(items):
    n = len(items)
    rec = {'items': [enc_item(x) for x in items]}
    for name, f in (('eq', lambda a, c: a == c), ('lt', lambda a, c: a < c), ('le', lambda a, c: a <= c),
                    ('gt', lambda a, c: a > c), ('ge', lambda a, c: a >= c)):
        rec[name] = [[b(f(items[i], items[j])) for j in range(n)] for i in range(n)]
    rec['hash'] = [hash(x) % 1000003 for x in items]
    rec['rank'] = [x.TYPE.rank if hasattr(x, 'TYPE') else 0 for x in items]
    order = sorted(range(n), key=lambda i: items[i])
    rec['sorted'] = order
    return rec


def twin_items():
    """Items that differ in exactly one component that is easy to leave out of a key: the bound variable of a
    quantified sentence (also where the quantifier is vacuous or the body open: these are items, whatever the
    parsers accept), the subscript of a parameter, the arity of a predicate."""
    x, y = Variable(0, 0), Variable(1, 0)
    F2, G1 = Predicate(0, 0, 2), Predicate(1, 0, 1)
    a = Constant(0, 0)
    out = []
    for q in Quantifier:
        for body in (F2(x, y), G1(a), G1(x)):
            out += [Quantified(q, x, body), Quantified(q, y, body)]
    E, U = Quantifier.Existential, Quantifier.Universal
    out += [Quantified(U, x, Quantified(E, y, F2(x, y))), Quantified(U, y, Quantified(E, x, F2(x, y))),
            Quantified(U, x, Quantified(E, y, F2(y, x))), ~Quantified(E, x, G1(x)), ~Quantified(E, y, G1(y)),
            Predicate(0, 1, 2), Predicate(0, 0, 1), Constant(0, 1), Variable(0, 1)]
    return out


def do_matrix(sents, out, maxitems, seed):
    rng = random.Random(seed)
    ss = [dec_sent(json.loads(l)['s']) for l in open(sents)]
    rng.shuffle(ss)
    acc = []
    for s in ss:
        subitems(s, acc)
        if len(acc) > 4 * int(maxitems):
            break
    acc += [Predicate.Identity, Predicate.Existence, Constant(0, 3), Variable(3, 1), Atomic(4, 2)]
    twins = twin_items()
    # keep duplicates (equal items built twice) on purpose: rebuild some through their spec
    items = []
    seen = {}
    for x in acc:
        k = json.dumps(enc_item(x))
        seen[k] = seen.get(k, 0) + 1
        if seen[k] <= 2:
            items.append(x)
    rng.shuffle(items)
    items = items[:int(maxitems)] + twins
    rng.shuffle(items)
    args = []
    for k in range(0, min(len(ss), 36), 3):
        args.append(Argument(ss[k], ss[k + 1:k + 1 + k % 3]))
    args += [Argument(ss[0], ss[1:3]), Argument(ss[0], ss[1:3]), Argument(ss[0], ss[1:3], title='titled'),
             Argument(ss[0], ss[1:3], title='other title'), Argument(ss[3], (), title='t'), Argument(ss[3], ())]
    with open(out, 'w') as o:
        o.write(json.dumps(dict(matrix(items), rec='matrix', id='items')) + '\n')
        o.write(json.dumps(dict(matrix(args), rec='matrix', id='arguments')) + '\n')


def do_rebuild(sents, out, shard, nshards):
    shard, nshards = int(shard), int(nshards)
    with open(sents) as f, open(out, 'w') as o:
        for n, line in enumerate(f):
            if n % nshards != shard:
                continue
            s = dec_sent(json.loads(line)['s'])
            acc = []
            subitems(s, acc)
            for k, x in enumerate(acc):
                if isinstance(x, (Operator, Quantifier)):
                    continue
                rec = {'rec': 'rebuild', 'id': f'{n}.{k}', 'item': enc_item(x)}
                made = []

                def attempt(name, fn):
                    try:
                        y = fn()
                        made.append(y)
                        rec[name] = enc_item(y)
                    except Exception as e:
                        rec[name] = ['!', type(e).__name__]
                attempt('from_ident', lambda: LexicalAbc(x.ident))
                attempt('from_spec', lambda: type(x)(*x.spec) if not isinstance(x, Predicate) or not x.is_system else Predicate(x.spec))
                attempt('copied', lambda: copy.copy(x))
                attempt('deepcopied', lambda: copy.deepcopy(x))
                attempt('pickled', lambda: pickle.loads(pickle.dumps(x)))
                rec['all_equal'] = b(all(y == x and x == y and not (y != x) for y in made))
                rec['hash_equal'] = b(all(hash(y) == hash(x) for y in made))
                try:
                    x.spec = ()
                    imm = 0
                except Exception:
                    imm = 1
                try:
                    x.zzz_new_attribute = 1
                    imm = 0
                except Exception:
                    pass
                # the cached identity of a finished item: once published, it cannot be replaced by another value
                for name, other in (('_hash', hash(x) ^ 1), ('_ident', ('verif-other-ident',))):
                    try:
                        old = getattr(x, name)
                    except AttributeError:
                        continue
                    try:
                        setattr(x, name, other)
                    except Exception:
                        continue
                    imm = 0
                    try:
                        setattr(x, name, old)
                    except Exception:
                        pass
                rec['immutable'] = imm
                o.write(json.dumps(rec, separators=(',', ':')) + '\n')


UNIVERSE = [
    ['A', 0, 0], ['P', [-1, 0, 2], [['c', 0, 0], ['c', 1, 0]]], ['P', [-2, 0, 1], [['c', 0, 0]]],
    ['P', [0, 0, 1], [['c', 0, 0]]], ['Q', 'Existential', ['v', 0, 0], ['P', [0, 0, 1], [['v', 0, 0]]]],
    ['O', 'Negation', [['P', [-1, 0, 2], [['c', 1, 0], ['c', 1, 0]]]]],
    ['Q', 'Existential', ['v', 1, 0], ['P', [0, 0, 1], [['v', 0, 0]]]],       # twin of item 4: other bound variable
]


def do_history(hist, out):
    # the universe is built once BEFORE the histories only as idents/specs (plain tuples), never kept as objects
    ref = [dec_sent(e) for e in UNIVERSE]
    idents = [x.ident for x in ref]
    specs = [(type(x), x.spec) for x in ref]
    encs = [enc_sent(x) for x in ref]
    del ref
    with open(hist) as f, open(out, 'w') as o:
        for line in f:
            h = json.loads(line)
            ops = []
            for op, k in h['ops']:
                cls, spec = specs[k]
                try:
                    if op == 'spec':
                        y = cls(*spec)
                    elif op == 'ident':
                        y = LexicalAbc(idents[k])
                    elif op == 'sident':
                        y = Sentence(idents[k])
                    elif op == 'pickle':
                        y = pickle.loads(pickle.dumps(cls(*spec)))
                    else:
                        raise RuntimeError(op)
                    res = enc_sent(y)
                except Exception as e:
                    res = ['!', f'{type(e).__name__}: {e}'[:80]]
                ops.append({'op': op, 'k': k, 'res': res, 'want': encs[k]})
            o.write(json.dumps({'rec': 'history', 'id': h['id'], 'ops': ops}, separators=(',', ':')) + '\n')


def xitems(sents):
    """the items of the first sentences (every 7th), each listed once"""
    acc = []
    seen = set()
    for n, line in enumerate(open(sents)):
        if n % 7 and n > 40:
            continue
        sub = []
        subitems(dec_sent(json.loads(line)['s']), sub)
        for x in sub + twin_items():
            if isinstance(x, (Operator, Quantifier)):
                continue
            k = json.dumps(enc_item(x))
            if k not in seen:
                seen.add(k)
                acc.append(x)
    return acc + [Predicate.Identity, Predicate.Existence, Predicate.Identity(Constant(0, 0), Constant(1, 0))]


def do_xdump(sents, pkl):
    items = xitems(sents)
    for x in items:
        hash(x)                       # the hash is taken (and cached) before pickling
        x.ident
    with open(pkl, 'wb') as f:
        pickle.dump([(json.dumps(enc_item(x)), pickle.dumps(x)) for x in items], f)


def do_xload(sents, pkl, out):
    """runs in ANOTHER interpreter process (other PYTHONHASHSEED) than do_xdump"""
    with open(pkl, 'rb') as f:
        blobs = pickle.load(f)
    here = {json.dumps(enc_item(x)): x for x in xitems(sents)}
    with open(out, 'w') as o:
        for n, (k, blob) in enumerate(blobs):
            want = here[k]
            rec = {'rec': 'xpickle', 'id': f'x{n}', 'item': json.loads(k)}
            try:
                got = pickle.loads(blob)
                rec.update(loaded=enc_item(got), eq=b(got == want and want == got), hash_eq=b(hash(got) == hash(want)),
                           in_set=b(got in {want} and want in {got}))
            except Exception as e:
                rec.update(loaded=['!', type(e).__name__], eq=0, hash_eq=0, in_set=0)
            o.write(json.dumps(rec, separators=(',', ':')) + '\n')


if __name__ == '__main__':
    mode = sys.argv[1]
    {'matrix': do_matrix, 'rebuild': do_rebuild, 'history': do_history, 'xdump': do_xdump, 'xload': do_xload}[mode](*sys.argv[2:])
