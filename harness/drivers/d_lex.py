"""C15 driver: substitution and derived attributes of TLC-generated sentences.

usage: d_lex.py <cases.ndjson> <out.ndjson> <shard> <nshards>
"""
import json
import sys

from enc import dec_param, dec_sent, enc_param, enc_pred, enc_sent
from pytableaux.lang import Constant, Quantified

PARAMS = [['c', 0, 0], ['c', 1, 0], ['c', 2, 0], ['v', 0, 0], ['v', 2, 0]]


def main(cases, out, shard, nshards):
    shard, nshards = int(shard), int(nshards)
    with open(cases) as f, open(out, 'w') as o:
        for n, line in enumerate(f):
            if n % nshards != shard:
                continue
            c = json.loads(line)
            s = dec_sent(c['s'])
            subs = []
            derived = {}

            def note(x):
                # the published attributes of a RESULT object and of its sub-sentences (objects that compare equal may
                # still carry different cached attributes: keep every distinct reading)
                stack = [x]
                while stack:
                    y = stack.pop()
                    rec = {'s': enc_sent(y), 'constants': sorted(enc_param(p) for p in y.constants),
                           'variables': sorted(enc_param(p) for p in y.variables),
                           'quantifiers': [q.name for q in y.quantifiers], 'operators': [op.name for op in y.operators]}
                    derived[json.dumps(rec, sort_keys=True)] = rec
                    if type(y) is Quantified:
                        stack.append(y.sentence)
                    elif hasattr(y, 'operands'):
                        stack.extend(y.operands)
            for new in PARAMS:
                for old in PARAMS:
                    try:
                        rs = s.substitute(dec_param(new), dec_param(old))
                        r = enc_sent(rs)
                        note(rs)
                    except Exception as e:
                        r = ['!', type(e).__name__]
                    subs.append({'new': new, 'old': old, 'res': r})
            unq = []
            if type(s) is Quantified:
                for cc in PARAMS[:3]:
                    k = dec_param(cc)
                    try:
                        i1, i2 = k >> s, s.unquantify(k)
                        note(i1)
                        note(i2)
                        r1 = enc_sent(i1)
                        r2 = enc_sent(i2)
                        r = r1 if r1 == r2 else ['!', 'rshift-differs-from-unquantify']
                    except Exception as e:
                        r = ['!', type(e).__name__]
                    unq.append({'c': cc, 'res': r})
            c.update(subs=subs, unq=unq, derived=list(derived.values()), negative=enc_sent(s.negative()),
                     constants=[enc_param(p) for p in s.constants], variables=[enc_param(p) for p in s.variables],
                     predicates=[enc_pred(p) for p in s.predicates], atomics=[enc_sent(a) for a in s.atomics],
                     operators=[op.name for op in s.operators], quantifiers=[q.name for q in s.quantifiers],
                     roundtrip=enc_sent(s))
            o.write(json.dumps(c, separators=(',', ':')) + '\n')


if __name__ == '__main__':
    main(*sys.argv[1:])
