"""C13 driver: parse strings, one long-lived parser per (notation, configuration) plus a fresh
parser with the same predicate store for every string.

usage: d_parser.py <strings.ndjson> <out.ndjson> <agg.json> <shard> <nshards>
Records whose outcome is the plain, history-independent ParseError with an unchanged store are only
counted (agg.json); everything else is written as an individual record.
"""
import json
import signal
import sys

from enc import enc_pred, enc_sent
from pytableaux.errors import ParseError
from pytableaux.lang import Parser, Predicates


class Watchdog(Exception):
    pass


def _alarm(*_):
    raise Watchdog()


signal.signal(signal.SIGALRM, _alarm)

# (notation, auto_preds, declared predicates, in-place replacement applied to the store before parsing)
CONFIGS = [('polish', 1, (), None), ('polish', 0, ((0, 0, 1), (1, 0, 2)), None), ('standard', 1, (), None),
           ('standard', 0, ((0, 0, 1), (1, 0, 2)), None),
           ('polish', 1, ((0, 0, 1), (1, 0, 2)), (0, (0, 0, 2))), ('standard', 0, ((0, 0, 1), (1, 0, 1)), (1, (1, 0, 3))),
           # an IMMUTABLE store with the parser's default options (auto_preds on): nothing can be declared, so the
           # parser must behave as with auto_preds off (recorded as auto = 0)
           ('polish', 0, ((0, 0, 1),), 'frozen'), ('standard', 0, (), 'frozen')]


def make_store(preds, repl):
    if repl == 'frozen':
        return Predicates.Frozen(preds)
    st = Predicates(preds)
    if repl is not None:
        i, p = repl
        st[i] = p                 # replace a declaration in place (same symbol, other arity)
    return st


def parse(p, s, limit=2.0):
    signal.setitimer(signal.ITIMER_REAL, limit)
    try:
        r = p(s)
        return 'ok', enc_sent(r)
    except ParseError:
        return 'ParseError', []
    except Watchdog:
        if limit < 60:
            # a stall of the machine is not non-termination: judge only after a generous second attempt
            return parse(p, s, 90.0)
        return 'NonTermination', []
    except Exception as e:
        return type(e).__name__, []
    finally:
        signal.setitimer(signal.ITIMER_REAL, 0)


def store(p):
    return sorted(enc_pred(x) for x in p.predicates)


def main(strings, out, agg, shard, nshards):
    shard, nshards = int(shard), int(nshards)
    strs = [json.loads(l) for k, l in enumerate(open(strings)) if k % nshards == shard]
    counts = {'aggregated_parse_errors': 0, 'parsed_ok': 0, 'total': 0}
    with open(out, 'w') as o:
        for notation, auto, preds, repl in CONFIGS:
            frozen = repl == 'frozen'
            live = Parser(notation, make_store(preds, repl)) if frozen else Parser(notation, make_store(preds, repl), auto_preds=bool(auto))
            for n, c in enumerate(strs):
                before = store(live)
                o1, s1 = parse(live, c['str'])
                try:
                    fresh = (Parser(notation, Predicates.Frozen(tuple(x) for x in before)) if frozen
                             else Parser(notation, Predicates(tuple(x) for x in before), auto_preds=bool(auto)))
                    o2, s2 = parse(fresh, c['str'])
                except Exception as e:       # the live store cannot even be re-declared: recorded, judged by the spec
                    o2, s2 = f'StoreRejected:{type(e).__name__}', []
                after = store(live)
                counts['total'] += 1
                if o1 == 'ParseError' and o2 == 'ParseError' and after == before:
                    counts['aggregated_parse_errors'] += 1
                    continue
                if o1 == 'ok':
                    counts['parsed_ok'] += 1
                o.write(json.dumps({'id': f"{notation}/{auto}{'f' if frozen else ''}/{c['id']}", 'notation': notation, 'auto': auto, 'str': c['str'],
                                    'store_before': before, 'store_after': after, 'out': o1, 'sent': s1,
                                    'fresh_out': o2, 'fresh_sent': s2}, separators=(',', ':')) + '\n')
                # keep the auto store from growing without bound: restart the live parser now and then
                if auto and len(after) > 6:
                    live = Parser(notation, make_store(preds, repl), auto_preds=True)
    json.dump(counts, open(agg, 'w'))


if __name__ == '__main__':
    main(*sys.argv[1:])
