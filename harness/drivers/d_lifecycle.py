"""C17 driver: replay call sequences on real tableaux.

usage: d_lifecycle.py <seqs.ndjson> <configs.json> <out.ndjson> <shard> <nshards>
config = {logic, argstr, mode, limit, tmo}; n and valid are measured here with
an unlimited build of a fresh tableau.
"""
import json
import sys
import types

from pytableaux.errors import IllegalStateError, ProofTimeoutError
from pytableaux.lang import Argument
from pytableaux.logics import registry
from pytableaux.proof import Tableau


# virtual clock: every reading is 1 ms later than the previous one, so that an
# expired time limit is a deterministic function of the calls made (DESIGN 4/C17)
import pytableaux.tools.timing as _timing
_clock = [0.0]


def _fake_time():
    _clock[0] += 0.001
    return _clock[0]


_timing._time = _fake_time
_extra_n = [0]
_nset = [0]


def argid(t):
    # which of the argument objects handed to this tableau it currently reports: 0 none, 1 the
    # constructor's, k + 1 the one of the k-th set_argument call (equal content, own title)
    a = t.argument
    if a is None:
        return 0
    try:
        return int(str(a.title)[1:])
    except (TypeError, ValueError):
        return -1


def obs(t):
    fl = t.flag
    return {'argid': argid(t), 'finished': int(t.finished), 'completed': int(t.completed), 'premature': int(t.premature),
            'valid': -1 if t.valid is None else int(t.valid), 'invalid': -1 if t.invalid is None else int(t.invalid),
            'history_len': len(t.history), 'started': int(fl.STARTED in fl)}


def make(cfg, arg):
    opts = {}
    if cfg['limit'] != -1:
        opts['max_steps'] = cfg['limit'] if cfg['limit'] != -2 else -5
    if cfg['tmo'] == 1:
        opts['build_timeout'] = 1e-9
    elif cfg['tmo'] == 2:
        opts['build_timeout'] = cfg['T']
    if cfg['mode'] == 'auto':
        return Tableau(cfg['logic'], arg, **opts)
    if cfg['mode'] == 'manual':
        return Tableau(cfg['logic'], arg, auto_build_trunk=False, **opts)
    if cfg['mode'] == 'hand':
        # no argument, no trunk: one branch holding copies of the nodes the trunk of `arg` would have had
        t = Tableau(cfg['logic'], auto_build_trunk=False, **opts)
        b = t.branch()
        for nd in Tableau(cfg['logic'], arg)[0]:
            b.append(dict(nd))
        return t
    return Tableau(cfg['logic'], **opts)


def do(t, call, cfg, arg, extra):
    try:
        if call == 'step':
            r = t.step()
            return 'none' if r is None else ('entry' if r is t.history[-1] else 'entry-not-last')
        if call == 'finish':
            return 'self' if t.finish() is t else 'other'
        if call == 'build':
            return 'self' if t.build() is t else 'other'
        if call == 'build_trunk':
            return 'self' if t.build_trunk() is t else 'other'
        if call == 'set_argument':
            _nset[0] += 1
            t.argument = Argument(cfg['argstr'], title=f'v{_nset[0] + 1}')
            return 'ok'
        if call == 'set_logic':
            t.logic = cfg['logic']
            return 'ok'
        if call == 'add_rule':
            _extra_n[0] += 1
            t.rules.append(types.new_class(f'VerifExtra{_extra_n[0]}', (extra,)))
            return 'ok'
    except IllegalStateError:
        return 'raise:IllegalStateError'
    except ProofTimeoutError:
        return 'raise:ProofTimeoutError'
    except Exception as e:
        return f'raise:{type(e).__name__}'
    return 'unknown-call'


def main(seqs, configs, out, shard, nshards):
    shard, nshards = int(shard), int(nshards)
    registry.import_all()
    seqs = [json.loads(l) for l in open(seqs)]
    configs = json.load(open(configs))
    n = 0
    with open(out, 'w') as o:
        for ci, cfg in enumerate(configs):
            arg = Argument(cfg['argstr'], title='v1')
            t0 = _clock[0]
            ref = Tableau(cfg['logic'], arg).build()
            if cfg['tmo'] == 2:
                # a limit (virtual ms) that the whole build exceeds at least twice over but no single step does
                cfg = dict(cfg, T=max(1.0, round((_clock[0] - t0) * 1000 / 3)))
                if len(ref.history) < 3:
                    continue
            hand = cfg['mode'] == 'hand'
            if hand:
                ref = make(dict(cfg, limit=-1, tmo=0), arg).build()
            base = registry(cfg['logic']).Rules.closure[0]
            for s in seqs:
                if hand and any(c not in ('step', 'finish', 'build') for c in s['calls']):
                    continue
                n += 1
                if n % nshards != shard:
                    continue
                Extra = base
                _nset[0] = 0
                t = make(cfg, arg)
                rec = {'id': f"{ci}/{s['id']}", 'mode': cfg['mode'], 'n': len(ref.history), 'valid': -1 if hand else int(bool(ref.valid)),
                       'limit': cfg['limit'], 'tmo': cfg['tmo'], 'logic': cfg['logic'], 'argstr': cfg['argstr'],
                       'obs0': obs(t), 'calls': []}
                for call in s['calls']:
                    ret = do(t, call, cfg, arg, Extra)
                    rec['calls'].append({'call': call, 'ret': ret, 'obs': obs(t), 'hasarg': int(t.argument is not None)})
                o.write(json.dumps(rec, separators=(',', ':')) + '\n')


if __name__ == '__main__':
    main(*sys.argv[1:])
