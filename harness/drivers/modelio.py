"""Export of a finished model through public attributes, and get_data() flattened (C02 C08 C20)."""
import json

from enc import enc_param, enc_pred, enc_sent
from pytableaux.lang import Predicated


def export(m):
    worlds = sorted(m.frames)
    val = []
    for w in worlds:
        fr = m.frames[w]
        for s, v in fr.atomics.items():
            val.append([w, enc_sent(s), v.name])
        for s, v in fr.opaques.items():
            val.append([w, enc_sent(s), v.name])
        for pred, interp in fr.predicates.items():
            for params, v in interp.items():
                val.append([w, enc_sent(Predicated(pred, tuple(params))), v.name])
    R = [[w1, w2] for w1 in sorted(m.R) for w2 in sorted(m.R[w1])]
    allw = sorted(set(worlds) | {w for p in R for w in p})
    return {'W': allw, 'frame_worlds': worlds, 'R': R, 'C': [enc_param(c) for c in sorted(m.constants)],
            'val': sorted(val, key=json.dumps)}


def simplify_data(m, data):
    """get_data() -> plain lists; also record whether each list is sorted by the library's own order"""
    modal = bool(m.Meta.modal)
    sorted_ok = 1

    def is_sorted(xs):
        xs = list(xs)
        return all(not (xs[i + 1] < xs[i]) for i in range(len(xs) - 1))

    def frame(fd):
        nonlocal sorted_ok
        at = [(x['input'], x['output']) for x in fd['Atomics']['values']]
        op = [(x['input'], x['output']) for x in fd['Opaques']['values']]
        if not is_sorted([a for a, _ in at]) or not is_sorted([a for a, _ in op]):
            sorted_ok = 0
        preds = []
        plist = []
        for pv in fd['Predicates']['values']:
            (item,) = pv['values']
            pred, tuples = item['input'], item['output']
            if not is_sorted(tuples):
                sorted_ok = 0
            sym = pv['symbol']
            preds.append({'pred': enc_pred(pred), 'part': '-' if sym.endswith('-') else '+',
                          'tuples': [[enc_param(c) for c in t] for t in tuples]})
            if not plist or plist[-1] != pred:
                plist.append(pred)
        if not is_sorted(plist):
            sorted_ok = 0
        return {'atomics': [[enc_sent(s), v.name if hasattr(v, 'name') else str(v)] for s, v in at],
                'opaques': [[enc_sent(s), v.name if hasattr(v, 'name') else str(v)] for s, v in op],
                'preds': preds}

    if not modal:
        out = {'worlds': [0], 'access': [], 'frames': [dict(frame(data), w=0)], 'modal': 0}
    else:
        ws = list(data['Worlds']['values'])
        acc = [list(p) for p in data['Access']['values']]
        if ws != sorted(ws) or acc != sorted(acc):
            sorted_ok = 0
        frames = []
        for w, f in zip(ws, data['Frames']['values']):
            frames.append(dict(frame(f['value']), w=w))
        out = {'worlds': ws, 'access': acc, 'frames': frames, 'modal': 1}
    out['sorted_ok'] = sorted_ok
    return out




def data_record(m):
    "get_data() twice -> (flattened, same?, error)"
    try:
        data = simplify_data(m, m.get_data())
        same = int(simplify_data(m, m.get_data()) == data)
        return data, same, ''
    except Exception as e:
        return ({'worlds': [], 'access': [], 'frames': [], 'modal': 0, 'sorted_ok': 1}, 1,
                f'raise:{type(e).__name__}: {e}'[:200])
