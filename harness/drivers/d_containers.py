"""C18 driver: replay operation sequences on qset / linqset / Predicates.

usage: d_containers.py <seqs.ndjson> <out.ndjson> <shard> <nshards>
Universe values 1..5; for Predicates they stand for F/1, F/2, G/1, H/2, G/2.
"""
import json
import sys

from pytableaux.lang import Predicate, Predicates
from pytableaux.tools.hybrids import qset
from pytableaux.tools.linked import linqset

PRED = {1: Predicate(0, 0, 1), 2: Predicate(0, 0, 2), 3: Predicate(1, 0, 1), 4: Predicate(2, 0, 2), 5: Predicate(1, 0, 2)}
PNUM = {v: k for k, v in PRED.items()}
SLICES = {'0:1': slice(0, 1), '1:': slice(1, None), ':2': slice(None, 2), '1:3': slice(1, 3), '::2': slice(None, None, 2),
          '::-1': slice(None, None, -1), '::-2': slice(None, None, -2), '3:0:-2': slice(3, 0, -2)}
SORTKEY = {1: 1, 2: 2, 3: 1, 4: 2, 5: 2}


class Dom:
    def __init__(self, cls):
        self.cls = cls
        self.pred = cls == 'Predicates'

    def new(self):
        return {'qset': qset, 'linqset': linqset, 'Predicates': Predicates}[self.cls]()

    def val(self, v):
        return PRED[v] if self.pred else v

    def num(self, x):
        return PNUM[x] if self.pred else x

    def sortkey(self):
        return (lambda p: PNUM[p]) if self.pred else None


def observe(D, c):
    lst = [D.num(x) for x in c]
    member, index = [0], [0]          # 1-based for TLA: element 0 is padding and dropped below
    for v in (1, 2, 3, 4, 5):
        x = D.val(v)
        member.append(int(x in c))
        try:
            index.append(c.index(x))
        except Exception:
            index.append(-1)
    try:
        getitem = [D.num(c[i]) for i in range(len(lst))]
    except Exception as e:
        getitem = [-99]
    try:
        ln = len(c)
    except Exception:
        ln = -99
    try:
        rev = [D.num(x) for x in reversed(c)]
    except Exception:
        rev = [-99]
    slices = []
    for name in ('::-1', '::-2', '3:0:-2', '1:3', '::2'):
        try:
            slices.append({'sl': name, 'got': [D.num(x) for x in c[SLICES[name]]]})
        except Exception:
            slices.append({'sl': name, 'got': [-99]})
    return {'list': lst, 'len': ln, 'member': member[1:], 'index': index[1:], 'getitem': getitem,
            'rev': rev, 'slices': slices}


def refs_of(D, c):
    out = []
    for v in (1, 2, 3, 4, 5):
        found = []
        for ref in PRED[v].refs:
            try:
                p = c.get(ref)
                found.append(PNUM.get(p, 99))
            except KeyError:
                found.append(0)
        out.append(found)
    return out


def do(D, c, e):
    op = e['op']
    v = D.val(e['v']) if e['v'] else None
    vals = [D.val(x) for x in e['vals']]
    if op == 'append': c.append(v)
    elif op == 'add': c.add(v)
    elif op == 'insert': c.insert(e['i'], v)
    elif op == 'remove': c.remove(v)
    elif op == 'discard': c.discard(v)
    elif op == 'delitem': del c[e['i']]
    elif op == 'delslice': del c[SLICES[e['sl']]]
    elif op == 'setitem': c[e['i']] = v
    elif op == 'setslice': c[SLICES[e['sl']]] = vals
    elif op == 'sort':
        if D.sortkey():
            c.sort(key=D.sortkey())
        else:
            c.sort()
    elif op == 'sortkr':
        c.sort(key=lambda x: SORTKEY[D.num(x)], reverse=True)
    elif op == 'reverse': c.reverse()
    elif op == 'clear': c.clear()
    elif op == 'ior': c |= vals
    elif op == 'iand': c &= vals
    elif op == 'isub': c -= vals
    elif op == 'ixor': c ^= vals
    elif op == 'extend': c.extend(vals)
    elif op == 'update': c.update(vals)
    elif op == 'wedge': c.wedge(v, D.val(e['w']), e['i'])
    else: raise RuntimeError(op)
    return c


def main(seqs, out, shard, nshards):
    shard, nshards = int(shard), int(nshards)
    with open(seqs) as f, open(out, 'w') as o:
        for n, line in enumerate(f):
            if n % nshards != shard:
                continue
            t = json.loads(line)
            D = Dom(t['cls'])
            c = D.new()
            evs = []
            for e in t['ops']:
                orig = []
                try:
                    if e['op'] == 'copy':
                        old = c
                        c = c.copy()
                        orig = [D.num(x) for x in old]
                    else:
                        c = do(D, c, e)
                    res = 'ok'
                except Exception as ex:
                    res = f'raise:{type(ex).__name__}'
                ev = {'e': e, 'res': res, 'obs': observe(D, c), 'orig': orig}
                if D.pred:
                    ev['refs'] = refs_of(D, c)
                evs.append(ev)
            o.write(json.dumps({'id': t['id'], 'cls': t['cls'], 'ops': evs}, separators=(',', ':')) + '\n')


if __name__ == '__main__':
    main(*sys.argv[1:])
