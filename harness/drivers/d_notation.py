"""C12 driver.

usage: d_notation.py tables <out.json>
       d_notation.py replay <sents.ndjson> <out.ndjson> <shard> <nshards>
       d_notation.py writers <sents.ndjson> <out.ndjson>
"""
import json
import sys

from enc import dec_sent, enc_sent
from pytableaux.lang import (Argument, Atomic, Constant, LexWriter, Marking, Notation, Operated, Operator, Parser, Predicate,
                             Predicates, Quantifier, Variable)
from pytableaux.lang.parsing import ParseTable
from pytableaux.lang.writing import StringTable


def table(notn):
    t = ParseTable.fetch(notn)
    rev = t.reversed
    out = {'atomic': [], 'constant': [], 'variable': [], 'predicate': []}
    for name, cls in (('atomic', Atomic), ('constant', Constant), ('variable', Variable), ('predicate', Predicate)):
        k = 0
        while (cls, k) in rev:
            out[name].append(rev[cls, k])
            k += 1
    out['op'] = {op.name: rev[op] for op in Operator}
    out['q'] = {q.name: rev[q] for q in Quantifier}
    out['sys'] = {p.name: rev[p] for p in Predicate.System}
    out['popen'] = rev.get(Marking.paren_open, '(')
    out['pclose'] = rev.get(Marking.paren_close, ')')
    out['ws'] = rev[Marking.whitespace]
    return out


def do_tables(out):
    json.dump({'polish': table('polish'), 'standard': table('standard')}, open(out, 'w'))


def enc_or_err(fn):
    try:
        return enc_sent(fn())
    except Exception as e:
        return ['!', f'{type(e).__name__}: {e}'[:120]]


def do_replay(sents, out, shard, nshards):
    shard, nshards = int(shard), int(nshards)
    pw = LexWriter('polish', 'text', 'ascii')
    with open(sents) as f, open(out, 'w') as o:
        prev = None
        for n, line in enumerate(f):
            if n % nshards != shard:
                continue
            c = json.loads(line)
            s = dec_sent(c['s'])
            preds = Predicates(p for p in s.predicates if not p.is_system)
            parsed = []
            for x in c['strings']:
                p = Parser(x['notation'], preds.copy())
                parsed.append({'notation': x['notation'], 'str': x['str'], 'got': enc_or_err(lambda: p(x['str']))})
            written = pw(s)
            rec = {'rec': 'sentence', 'id': c['id'], 's': c['s'], 'parsed': parsed, 'written': written,
                   'reparsed': enc_or_err(lambda: Parser('polish', preds.copy())(written))}
            o.write(json.dumps(rec, separators=(',', ':')) + '\n')
            # arguments from consecutive sentences whose predicates do not clash
            if prev is not None:
                try:
                    Predicates(p for x in (s, prev) for p in x.predicates if not p.is_system)
                    ok = True
                except Exception:
                    ok = False
                if ok:
                    # one or two premises, also with a premise REPEATED (an argument is a sequence of premises)
                    arg = Argument(s, [(prev,), (prev, s), (prev, s, prev), (prev, prev)][n % 4])
                    a = {'prems': [enc_sent(p) for p in arg.premises], 'conc': enc_sent(arg.conclusion)}
                    try:
                        astr = arg.argstr()
                        back = Argument(astr)
                        rb = {'prems': [enc_sent(p) for p in back.premises], 'conc': enc_sent(back.conclusion)}
                    except Exception as e:
                        astr, rb = '', {'prems': [], 'conc': ['!', type(e).__name__]}
                    o.write(json.dumps({'rec': 'argument', 'id': f"a{c['id']}", 'arg': a, 'argstr': astr, 'rebuilt': rb},
                                       separators=(',', ':')) + '\n')
            prev = s


def do_writers(sents, out):
    ss = [dec_sent(json.loads(l)['s']) for l in open(sents)]
    # one long-lived writer renders the whole space IN THIS ORDER: every binary sentence X is followed by sentences
    # that contain it as an operand and by its look-alikes with the negation / quantifier moved inside
    # (~X vs (~l) o r,  Q x X vs (Q x l) o r): what a writer rendered before must not leak into what it renders next
    seen = {json.dumps(enc_sent(x)) for x in ss}
    extra = []
    for x in ss[:400]:
        if type(x) is Operated and len(x.operands) == 2:
            l, r = x.operands
            for y in (~x, x.operator(~l, r), x.operator(x, r), x.operator(l, x)):
                k = json.dumps(enc_sent(y))
                if k not in seen:
                    seen.add(k)
                    extra.append(y)
    ss = ss + extra
    with open(out, 'w') as o:
        k = 0
        for (fmt, notn, dialect) in StringTable._instances:
            optsets = [{}]
            if Notation(notn) is Notation.standard:
                optsets = [{}, {'drop_parens': False}, {'identity_infix': False}, {'max_infix': 3}]
            for opts in optsets:
                w = LexWriter(notn, fmt, dialect, **opts)
                strings, errors = [], 0
                for j, s in enumerate(ss):
                    try:
                        strings.append(w(s))
                    except Exception as e:
                        errors += 1
                        strings.append(f'!error {j} {type(e).__name__}')
                k += 1
                o.write(json.dumps({'rec': 'writer', 'id': f'w{k}', 'notation': Notation(notn).name,
                                    'writer': f'{Notation(notn).name}/{fmt}/{dialect}/{json.dumps(opts, sort_keys=True)}',
                                    'strings': strings, 'errors': errors}) + '\n')


if __name__ == '__main__':
    {'tables': do_tables, 'replay': do_replay, 'writers': do_writers}[sys.argv[1]](*sys.argv[2:])
