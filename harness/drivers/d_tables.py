"""C07 driver: dump every logic's truth tables and designated values (public API only).

usage: d_tables.py <out.ndjson> <mode>
mode  all      registry.import_all(), then per logic: table(op), table(op, reverse=True), table(op) again
      lazy:N   logics are looked up one by one (imported on demand) in order N (0 sorted, 1 reversed, >=2 seeded
               shuffle) and their tables are dumped immediately: a table must not depend on what was asked before
In mode all the table objects of the first phase are KEPT and read again (through inputs/outputs and through
.mapping) after every other table of the logic has been asked for: a table is a value, later calls must not change it.
Every call is recorded as its own phase; rows are (inputs, output) pairs, so the order of a reversed table does not matter.
"""
import json
import random
import sys

from pytableaux.lang import Operator
from pytableaux.logics import registry

TF = ['Assertion', 'Negation', 'Conjunction', 'Disjunction', 'MaterialConditional',
      'MaterialBiconditional', 'Conditional', 'Biconditional']
NAMES = ['B3E', 'CFOL', 'CPL', 'D', 'FDE', 'G3', 'GO', 'K', 'K3', 'K3W', 'K3WQ', 'KB3E', 'KFDE', 'KG3', 'KK3', 'KK3W',
         'KK3WQ', 'KL3', 'KLP', 'KRM3', 'L3', 'LP', 'MH', 'NH', 'P3', 'RM3', 'S4', 'S4B3E', 'S4FDE', 'S4G3', 'S4GO',
         'S4K3', 'S4K3W', 'S4K3WQ', 'S4L3', 'S4LP', 'S4RM3', 'S5', 'S5B3E', 'S5FDE', 'S5G3', 'S5K3', 'S5K3W', 'S5K3WQ',
         'S5L3', 'S5LP', 'S5RM3', 'T', 'TB3E', 'TFDE', 'TG3', 'TK3', 'TK3W', 'TK3WQ', 'TL3', 'TLP', 'TRM3']


def vname(values, v):
    """the name of a truth value of THIS logic; a look-alike member of another logic's value class is marked"""
    try:
        own = values[v.name]
    except Exception:
        own = None
    return v.name if own is v else f'{getattr(v, "name", v)}?foreign'


def rows_of(tt, via='outputs'):
    pairs = zip(tt.inputs, tt.outputs) if via == 'outputs' else tt.mapping.items()
    return [{'ins': [vname(tt.values, v) for v in ins], 'out': vname(tt.values, outv)} for ins, outv in pairs]


def tables(lg, keep=None, **kw):
    out = []
    for op in TF:
        tt = lg.Model.truth_table(Operator[op], **kw)
        if keep is not None:
            keep.append((op, tt))
        out.append({'op': op, 'rows': rows_of(tt)})
    return out


def record(lg, phase, keep=None, kept=None, **kw):
    M = lg.Meta
    if kept is not None:
        tabs = [{'op': op, 'rows': rows_of(tt, kw['via'])} for op, tt in kept]
    else:
        tabs = tables(lg, keep, **kw)
    return {'id': f'{M.name}/{phase}', 'logic': M.name, 'phase': phase,
            'values': [v.name for v in M.values],
            'designated': sorted(v.name for v in M.designated_values),
            'unassigned': M.unassigned_value.name,
            'modal': int(bool(M.modal)), 'quantified': int(bool(M.quantified)),
            'native': [o.name for o in M.native_operators],
            'tables': tabs}


def main(out, mode='all'):
    with open(out, 'w') as f:
        if mode == 'all':
            registry.import_all()
            found = sorted(lg.Meta.name for lg in registry.values())
            for name in found:
                lg = registry(name)
                keep = []
                f.write(json.dumps(record(lg, 'first', keep=keep)) + '\n')
                for phase, kw in (('reversed', {'reverse': True}), ('again', {})):
                    f.write(json.dumps(record(lg, phase, **kw)) + '\n')
                f.write(json.dumps(record(lg, 'kept', kept=keep, via='outputs')) + '\n')
                f.write(json.dumps(record(lg, 'kept-mapping', kept=keep, via='mapping')) + '\n')
            f.write(json.dumps({'id': 'REGISTERED', 'logic': '', 'phase': 'names', 'names': found}) + '\n')
        else:
            n = int(mode.split(':')[1])
            names = sorted(NAMES)
            if n == 1:
                names.reverse()
            elif n >= 2:
                random.Random(n).shuffle(names)
            for name in names:
                lg = registry(name)
                f.write(json.dumps(record(lg, mode)) + '\n')


if __name__ == '__main__':
    main(*sys.argv[1:])
