"""C07 driver: dump every logic's truth tables and designated values (public API only)."""
import json
import sys

from pytableaux.lang import Operator
from pytableaux.logics import registry

TF = ['Assertion', 'Negation', 'Conjunction', 'Disjunction', 'MaterialConditional',
      'MaterialBiconditional', 'Conditional', 'Biconditional']


def main(out):
    registry.import_all()
    with open(out, 'w') as f:
        for lg in sorted(registry.values(), key=lambda l: l.Meta.name):
            M = lg.Meta
            tables = []
            for op in TF:
                tt = lg.Model.truth_table(Operator[op])
                rows = [{'ins': [v.name for v in ins], 'out': outv.name}
                        for ins, outv in zip(tt.inputs, tt.outputs)]
                tables.append({'op': op, 'rows': rows})
            rec = {'id': M.name, 'logic': M.name,
                   'values': [v.name for v in M.values],
                   'designated': sorted(v.name for v in M.designated_values),
                   'unassigned': M.unassigned_value.name,
                   'modal': int(bool(M.modal)), 'quantified': int(bool(M.quantified)),
                   'native': [o.name for o in M.native_operators],
                   'tables': tables}
            f.write(json.dumps(rec) + '\n')


if __name__ == '__main__':
    main(sys.argv[1])
