"""C05 driver: replay spec-generated literal sets on real branches.

usage: d_closure.py <cases.ndjson> <out.ndjson> <shard> <nshards>
For each case: Tableau(logic); branch with the literal nodes in the given
order; build(); record whether every branch closed and, per open branch, the
value the model builder reads back for the base sentence at each world.
"""
import json
import sys

from enc import dec_sent
from pytableaux.logics import registry
from pytableaux.proof import Tableau
from pytableaux.proof.common import Branch


def run_case(c):
    s = dec_sent(c['s'])
    # the verdict on a literal set may not depend on the search options: they rotate with the case number
    k = (c['id'] // 2) % 4
    tab = Tableau(c['logic'], is_group_optim=k not in (1, 3), is_rank_optim=k not in (2, 3))
    # two documented ways to put a branch on a tableau: create it there and append, or fill it first and add it
    prefilled = c['id'] % 2 == 1
    b = Branch() if prefilled else tab.branch()
    for lit in c['lits']:
        m = {'sentence': ~s if lit['neg'] else s}
        if lit['d'] != '':
            m['designated'] = lit['d'] == '+'
        if lit['w'] >= 0:
            m['world'] = lit['w']
        b.append(m)
    if prefilled:
        tab.add(b)
    tab.build()
    closed = int(len(tab.open) == 0)
    reads = []
    worlds = sorted({lit['w'] for lit in c['lits']})
    for br in tab.open:
        model = tab.logic.Model()
        model.read_branch(br)
        r = []
        for w in worlds:
            v = model.value_of(s, world=w) if w >= 0 else model.value_of(s)
            r.append([w, v.name])
        reads.append(r)
    return closed, reads


def main(cases, out, shard, nshards):
    shard, nshards = int(shard), int(nshards)
    registry.import_all()
    with open(cases) as f, open(out, 'w') as o:
        for k, line in enumerate(f):
            if k % nshards != shard:
                continue
            c = json.loads(line)
            try:
                closed, reads = run_case(c)
                err = ''
            except Exception as e:  # recorded, judged by the spec (clause Raised)
                closed, reads, err = 0, [], f'{type(e).__name__}: {e}'[:200]
            c.update(closed=closed, reads=reads, err=err)
            o.write(json.dumps(c) + '\n')


if __name__ == '__main__':
    main(*sys.argv[1:])
