"""Encoders: pytableaux objects -> the JSON encoding shared with the TLA+ specs.

Only public attributes are read (``type(x).__name__``, ``.spec``, ``.operator``,
``.params`` ...).  See DESIGN.md section 2.2.

parameter   ["c", idx, sub] | ["v", idx, sub]
predicate   [idx, sub, arity]
sentence    ["A", idx, sub] | ["P", pred, [param...]] | ["Q", qname, var, sent] | ["O", opname, [sent...]]
node        {"k": "s"|"a"|"f"|"x", "s": sent|[], "d": "+"|"-"|"", "w": int, "w1": int, "w2": int, "flag": str}
"""
from __future__ import annotations

from pytableaux.lang import (Atomic, Constant, Operated, Operator, Predicate,
                             Predicated, Quantified, Quantifier, Variable)


def enc_param(p):
    return ['c' if type(p) is Constant else 'v', p.index, p.subscript]


def enc_pred(p):
    return [p.index, p.subscript, p.arity]


def enc_sent(s):
    t = type(s)
    if t is Atomic:
        return ['A', s.index, s.subscript]
    if t is Predicated:
        return ['P', enc_pred(s.predicate), [enc_param(p) for p in s.params]]
    if t is Quantified:
        return ['Q', s.quantifier.name, enc_param(s.variable), enc_sent(s.sentence)]
    if t is Operated:
        return ['O', s.operator.name, [enc_sent(x) for x in s.operands]]
    raise TypeError(t)


def dec_param(e):
    return (Constant if e[0] == 'c' else Variable)(e[1], e[2])


def dec_pred(e):
    if e[0] < 0:
        return {-1: Predicate.Identity, -2: Predicate.Existence}[e[0]]
    return Predicate(tuple(e))


def dec_sent(e):
    k = e[0]
    if k == 'A':
        return Atomic(e[1], e[2])
    if k == 'P':
        return Predicated(dec_pred(e[1]), tuple(dec_param(p) for p in e[2]))
    if k == 'Q':
        return Quantified(Quantifier[e[1]], dec_param(e[2]), dec_sent(e[3]))
    if k == 'O':
        return Operated(Operator[e[1]], tuple(dec_sent(x) for x in e[2]))
    raise ValueError(e)


def enc_node(n):
    "n: a proof Node (mapping)."
    flag = n.get('flag')
    if flag is not None:
        return {'k': 'f', 's': [], 'd': '', 'w': -1, 'w1': -1, 'w2': -1, 'flag': str(flag)}
    w1, w2 = n.get('world1'), n.get('world2')
    if w1 is not None and w2 is not None:
        return {'k': 'a', 's': [], 'd': '', 'w': -1, 'w1': w1, 'w2': w2, 'flag': ''}
    s = n.get('sentence')
    if s is not None:
        d = n.get('designated')
        w = n.get('world')
        return {'k': 's', 's': enc_sent(s), 'd': '' if d is None else ('+' if d else '-'),
                'w': -1 if w is None else w, 'w1': -1, 'w2': -1, 'flag': ''}
    return {'k': 'x', 's': [], 'd': '', 'w': -1, 'w1': -1, 'w2': -1,
            'flag': ','.join(sorted(map(str, dict(n))))}


def dec_node(e):
    "-> plain mapping usable with Branch.append"
    if e['k'] == 'a':
        return {'world1': e['w1'], 'world2': e['w2']}
    if e['k'] == 's':
        m = {'sentence': dec_sent(e['s'])}
        if e['d'] != '':
            m['designated'] = e['d'] == '+'
        if e['w'] >= 0:
            m['world'] = e['w']
        return m
    raise ValueError(e)


def enc_arg(arg):
    return {'prems': [enc_sent(p) for p in arg.premises], 'conc': enc_sent(arg.conclusion)}
