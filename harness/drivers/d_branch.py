"""C06 driver: replay append/copy histories on real Branch objects.

usage: d_branch.py <hist.ndjson> <out.ndjson> <shard> <nshards>
Node kinds mirror BranchFreshCore.tla `Kinds` (1-based).
"""
import json
import sys

from pytableaux.lang import Atomic, Constant, Operator, Predicate
from pytableaux.proof.common import Branch

c = [Constant(i, 0) for i in range(4)]
F = Predicate(0, 0, 1)
H = Predicate(2, 0, 2)
A = Atomic(0, 0)
KINDS = [
    None,
    {'sentence': F(c[0])}, {'sentence': F(c[1])}, {'sentence': F(c[2])},
    {'sentence': H((c[0], c[1]))}, {'sentence': H((c[2], c[1]))}, {'sentence': H((c[2], c[0]))},
    {'sentence': A, 'world': 0}, {'sentence': A, 'world': 2}, {'sentence': F(c[1]), 'world': 1},
    {'world1': 0, 'world2': 1}, {'world1': 2, 'world2': 1},
    {'sentence': F(c[0]) & F(c[2])}, {'sentence': Operator.Conditional(F(c[1]), ~F(c[0])), 'world': 2},
]


def cnum(k):
    return k.subscript * 4 + k.index


def obs(branches):
    return [{'cs': sorted(cnum(k) for k in b.constants), 'ws': sorted(b.worlds),
             'offerC': cnum(b.new_constant()), 'offerW': b.new_world()} for b in branches]


def main(hist, out, shard, nshards):
    shard, nshards = int(shard), int(nshards)
    with open(hist) as f, open(out, 'w') as o:
        for n, line in enumerate(f):
            if n % nshards != shard:
                continue
            h = json.loads(line)
            branches = [Branch()]
            evs = []
            for op in h['ops']:
                err = ''
                try:
                    if op['op'] == 'copy':
                        src = branches[op['b']]
                        branches.append(src.copy(parent=src))
                    else:
                        branches[op['b']].append(dict(KINDS[op['k']]))
                except Exception as e:
                    err = f'{type(e).__name__}: {e}'[:120]
                evs.append({'op': op['op'], 'b': op['b'], 'k': op['k'], 'err': err, 'obs': obs(branches)})
            o.write(json.dumps({'rec': 'history', 'id': h['id'], 'ops': evs}, separators=(',', ':')) + '\n')


if __name__ == '__main__':
    main(*sys.argv[1:])
