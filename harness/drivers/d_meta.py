"""Dump the declared extension relation (C11) and logic metadata (public Meta attributes)."""
import json
import sys

from pytableaux.logics import registry

registry.import_all()
pairs = []
meta = {}
for lg in registry.values():
    M = lg.Meta
    meta[M.name] = {'modal': int(bool(M.modal)), 'quantified': int(bool(M.quantified))}
    for weaker in M.extension_of:
        pairs.append([M.name, str(weaker)])
json.dump({'pairs': sorted(pairs), 'meta': meta}, open(sys.argv[1], 'w'))
