"""C19 driver: render finished tableaux in every registered format x notation, twice; de-lay-out the text drawing.

usage: d_render.py <jobs.ndjson> <out.ndjson> <shard> <nshards>
"""
import json
import re
import sys

from d_proofs import make_arg
from enc import enc_node
from pytableaux.lang import LexWriter
from pytableaux.logics import registry as logics
from pytableaux.proof import Tableau
from pytableaux.proof.writers import TabWriter, registry

NODE_RE = re.compile(r'^(?P<body>.*?)(?P<world> w\d+)?(?P<d> \[[+-]\])?(?P<ell> \.\.\.)?(?P<tick> \*)?$', re.S)


def parse_node(txt):
    m = NODE_RE.match(txt)
    body = m.group('body')
    w = (m.group('world') or '').strip()[1:]
    d = {' [+]': '+', ' [-]': '-', None: ''}[m.group('d')]
    return [body, w, d]


def parse_struct(lines, r0, r1, col):
    """inverse of TextTabWriter._write_structure (trusted base)"""
    text = lines[r0][col:]
    if text.startswith('-- '):
        text = text[3:]
    has_children = text.endswith(' .')
    dotcol = len(lines[r0]) - 1
    body = text[:-2] if has_children else text
    parts = body.split('; ')
    marks = 0
    if parts and parts[-1] == '(x)':
        marks = 1
        parts = parts[:-1]
    elif parts and parts[-1] == '':
        parts = parts[:-1]
    else:
        # "(x)" directly after the last "; "-less node cannot happen; keep what we have
        if parts and parts[-1].endswith('(x)'):
            marks = 1
            parts[-1] = parts[-1][:-3]
    node = {'tokens': [parse_node(p) for p in parts], 'marks': marks, 'children': []}
    if has_children:
        starts = [r for r in range(r0 + 1, r1 + 1)
                  if len(lines[r]) > dotcol + 3 and lines[r][dotcol + 1:dotcol + 4] == '-- '
                  and lines[r][dotcol] in '| ' and lines[r][:dotcol].strip(' |') == '']
        for k, rs in enumerate(starts):
            re_ = (starts[k + 1] - 1) if k + 1 < len(starts) else r1
            node['children'].append(parse_struct(lines, rs, re_, dotcol + 1))
    return node


def paths(tree, prefix=(), marks=0):
    toks = list(prefix) + tree['tokens']
    m = marks + tree['marks']
    if not tree['children']:
        return [{'tokens': toks, 'marks': m}]
    out = []
    for c in tree['children']:
        out += paths(c, toks, m)
    return out


def main(jobs, out, shard, nshards):
    shard, nshards = int(shard), int(nshards)
    logics.import_all()
    with open(jobs) as f, open(out, 'w') as o:
        for n, line in enumerate(f):
            if n % nshards != shard:
                continue
            job = json.loads(line)
            arg = make_arg(job)
            opts = dict(is_group_optim=bool(job.get('g', 1)), is_rank_optim=bool(job.get('r', 1)),
                        is_build_models=bool(job.get('models', 0)))
            if job.get('max_steps', -1) >= 0:
                opts['max_steps'] = job['max_steps']
            try:
                tab = Tableau(job['logic'], arg, **opts).build()
            except Exception as e:
                continue        # not a rendering matter (C09)
            renders = []
            live = []
            for fmt in registry:
                # every boolean option the format's writer declares, flipped one at a time (polish notation only)
                flips = [('polish', {k: not v}) for k, v in sorted(dict(registry[fmt].defaults).items()) if isinstance(v, bool)]
                for notn, wopts in [('polish', {}), ('standard', {}), ('standard', {'drop_parens': False}),
                                    ('standard', {'identity_infix': False})] + flips:
                    if wopts and fmt != 'text' and (notn, wopts) not in flips:
                        continue
                    r = {'format': fmt, 'notation': notn, 'raised': '', 'same': 1, 'paths': [], 'wopts': json.dumps(wopts, sort_keys=True),
                         'flip': int((notn, wopts) in flips)}
                    try:
                        w = TabWriter(fmt, notn, **wopts)
                        o1 = w(tab)
                        o2 = TabWriter(fmt, notn, **wopts)(tab)
                        r['same'] = int(o1 == o2 and o1 == w(tab))
                        if fmt == 'text':
                            lines = o1.split('\n')
                            r['paths'] = paths(parse_struct(lines, 0, len(lines) - 1, 0))
                            lw = w.lw
                        live.append((r, w, o1))
                    except Exception as e:
                        r['raised'] = f'{type(e).__name__}: {e}'[:200]
                    renders.append(r)
            # history: every writer of this tableau is still alive and renders once more AFTER the writers of the other
            # notations / options / formats were used (order A, B, ..., A): "rendering twice gives identical text"
            for r, w, o1 in live:
                try:
                    if w(tab) != o1:
                        r['same'] = 0
                except Exception as e:
                    r['raised'] = f'{type(e).__name__}: {e}'[:200]
            recs = []
            base = TabWriter('text', 'standard').lw
            for notn, wopts in (('polish', {}), ('standard', {}), ('standard', {'drop_parens': False}), ('standard', {'identity_infix': False})):
                # the expected sentence text comes from an independently constructed lexical writer with the same options
                lw = LexWriter(notn, base.format, base.dialect, **wopts) if notn == 'standard' else TabWriter('text', notn).lw
                key = json.dumps(wopts, sort_keys=True)
                branches = []
                for b in tab:
                    nodes = []
                    for nd in b:
                        e = enc_node(nd)
                        s = nd.get('sentence')
                        e['text'] = lw(s) if s is not None else ''
                        e.pop('s')
                        nodes.append(e)
                    branches.append({'nodes': nodes, 'closed': int(b.closed)})
                recs.append({'id': f"{job['id']}/{notn}/{key}", 'logic': job['logic'], 'argstr': arg.argstr(), 'premature': int(tab.premature),
                             'branches': branches, 'renders': [r for r in renders if r['notation'] == notn and (r['wopts'] == key or r['flip'] and not wopts)]})
            for rec in recs:
                o.write(json.dumps(rec, separators=(',', ':')) + '\n')


if __name__ == '__main__':
    main(*sys.argv[1:])
