"""C08 / C20 driver: build models through the public model API and export them.

usage: d_models.py <cases.ndjson> <out.ndjson> <shard> <nshards>
case = {id, logic, calls: [{op, w, w2, s, v}], perms: [[i...]], sents: [enc sentence]}
For each permutation of the calls a fresh Model() is assembled
(set_atomic_value / set_predicated_value / set_opaque_value / R.add), finished,
and exported: worlds, access pairs, constants, every stored cell, value_of for
every requested sentence at every world, and get_data() twice.
"""
import json
import sys

from enc import dec_sent
from modelio import data_record, export
from pytableaux.logics import registry


def apply_call(m, c):
    op = c['op']
    if op == 'access':
        m.R.add((c['w'], c['w2']))
        return
    s = dec_sent(c['s'])
    kw = {'world': c['w']} if c['w'] >= 0 else {}
    if op == 'atomic':
        m.set_atomic_value(s, c['v'], **kw)
    elif op == 'pred':
        m.set_predicated_value(s, c['v'], **kw)
    elif op == 'opaque':
        m.set_opaque_value(s, c['v'], **kw)
    else:
        raise ValueError(op)


def run_perm(case, perm, sents):
    Model = registry(case['logic']).Model
    m = Model()
    res = []
    err = ''
    for i in perm:
        try:
            apply_call(m, case['calls'][i])
            res.append('ok')
        except Exception as e:
            res.append(f'raise:{type(e).__name__}')
    if sum(perm) % 2 == 0 or len(perm) % 2:
        # a look at the unfinished model (it may refuse) must not change what the finished model publishes
        try:
            m.get_data()
        except Exception:
            pass
    try:
        m.finish()
    except Exception as e:
        return {'perm': perm, 'calls_res': res, 'finish': f'raise:{type(e).__name__}', 'M': {'W': [], 'frame_worlds': [], 'R': [], 'C': [], 'val': []},
                'values': [], 'data': {'worlds': [], 'access': [], 'frames': [], 'modal': 0, 'sorted_ok': 1}, 'data_same': 1}
    M = export(m)
    values = []
    worlds = M['frame_worlds'] if m.Meta.modal else [0]
    for si, s in enumerate(sents):
        for w in worlds:
            try:
                v = m.value_of(s, world=w).name
            except Exception as e:
                v = f'!{type(e).__name__}'
            values.append([si, w, v])
    data, same, derr = data_record(m)
    return {'perm': perm, 'calls_res': res, 'finish': 'ok', 'M': M, 'values': values, 'data': data,
            'data_same': same, 'data_err': derr}


def main(cases, out, shard, nshards):
    shard, nshards = int(shard), int(nshards)
    registry.import_all()
    with open(cases) as f, open(out, 'w') as o:
        for k, line in enumerate(f):
            if k % nshards != shard:
                continue
            c = json.loads(line)
            sents = [dec_sent(s) for s in c['sents']]
            c['runs'] = [run_perm(c, perm, sents) for perm in c['perms']]
            o.write(json.dumps(c, separators=(',', ':')) + '\n')


if __name__ == '__main__':
    main(*sys.argv[1:])
