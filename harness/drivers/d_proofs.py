"""Proof recorder (C01 C02 C03 C06 C09 C10 C11 C16 C20).

usage: d_proofs.py <jobs.ndjson> <out.ndjson> <shard> <nshards>

job = {id, logic, argstr | arg (encoded), g, r, mode: "build"|"step"|"peek" (= step, with a discarded Tableau.next() before every step), max_steps, models: 0|1,
       level: "verdict"|"final"|"full", timeout_s}
Everything is observed through the public API (Tableau.step(), history, open,
stat(), tree, stats, Branch.new_constant/new_world wrapped in this process).
The order seed is the process-wide PYTABLEAUX_VERIF_ORDER.
"""
from __future__ import annotations

import json
import signal
import sys

from enc import dec_sent, enc_arg, enc_node, enc_param, enc_pred, enc_sent
from modelio import data_record, export
from pytableaux.lang import Argument, Predicated
from pytableaux.logics import registry
from pytableaux.proof import Tableau
from pytableaux.proof.common import Branch


class Watchdog(Exception):
    pass


def _alarm(*_):
    raise Watchdog()


signal.signal(signal.SIGALRM, _alarm)

# ---- interception of witness requests (C06 binding 2) ----------------------
_witness_log = None
_orig_nc = Branch.new_constant
_orig_nw = Branch.new_world


def _nc(self):
    c = _orig_nc(self)
    if _witness_log is not None:
        _witness_log.append({'kind': 'const', 'item': enc_param(c), 'w': -1,
                             'present': [enc_param(x) for x in sorted(self.constants)],
                             'presentw': []})
    return c


def _nw(self):
    w = _orig_nw(self)
    if _witness_log is not None:
        _witness_log.append({'kind': 'world', 'item': [], 'w': w, 'present': [],
                             'presentw': sorted(self.worlds)})
    return w


Branch.new_constant = _nc
Branch.new_world = _nw


def make_arg(job):
    if 'argstr' in job:
        return Argument(job['argstr'])
    a = job['arg']
    return Argument(dec_sent(a['conc']), tuple(dec_sent(p) for p in a['prems']))


class Ids:
    def __init__(self):
        self.n = {}
        self.nodes = []

    def node(self, n):
        k = id(n)
        if k not in self.n:
            self.n[k] = len(self.nodes)
            self.nodes.append(n)
        return self.n[k]


def _num(x):
    "stat() values: ints, None, or the Flag(0) default"
    if x is None:
        return -1
    if isinstance(x, int):
        return int(x)
    return int(getattr(x, 'value', -1))


def _tickstep(tab, b, n):
    try:
        return _num(tab.stat(b, n, Tableau.StatKey.STEP_TICKED))
    except KeyError:
        return -1


def enc_key(c):
    return ('c', c.index, c.subscript)


def _stat_ticked(tab, b, n):
    "what Tableau.stat() says about (branch, node): ticked?"
    try:
        fl = tab.stat(b, n, Tableau.StatKey.FLAGS)
        return tab.flag.TICKED in fl
    except KeyError:
        return False


def has_quit(br):
    return any(n.get('flag') == 'quit' for n in br)


def state(tab, ids, full):
    fl = tab.flag
    st = {
        'finished': int(tab.finished), 'completed': int(tab.completed), 'premature': int(tab.premature),
        'valid': -1 if tab.valid is None else int(tab.valid),
        'invalid': -1 if tab.invalid is None else int(tab.invalid),
        'current_step': tab.current_step, 'history_len': len(tab.history),
        'nbranches': len(tab), 'nopen': len(tab.open),
        'started': int(fl.STARTED in fl), 'trunk_built': int(fl.TRUNK_BUILT in fl),
        'timed_out': int(fl.TIMED_OUT in fl),
    }
    if not full:
        return st
    index = {id(b): i for i, b in enumerate(tab)}
    K = Tableau.StatKey
    brs = []
    for b in tab:
        par = b.parent
        brs.append({
            'nodes': [ids.node(n) for n in b],
            'ticked': [ids.node(n) for n in b if b.is_ticked(n)],
            'closed': int(b.closed),
            'parent': -1 if par is None else index.get(id(par), -2),
            'step_added': _num(tab.stat(b, K.STEP_ADDED)),
            'step_closed': _num(tab.stat(b, K.STEP_CLOSED)) if b.closed else -1,
            'quit': int(has_quit(b)),
            'tickstep': [[ids.node(n), _tickstep(tab, b, n)] for n in b
                         if b.is_ticked(n) and _tickstep(tab, b, n) >= 0],
            'stat_ticked': [ids.node(n) for n in b if _stat_ticked(tab, b, n)],
        })
    st['branches'] = brs
    st['open'] = [index[id(b)] for b in tab.open]
    # the same view through its other access paths (reverse iteration, length, indexing from both ends, membership)
    op = tab.open
    try:
        st['open_rev'] = [index.get(id(b), -1) for b in reversed(op)]
        st['open_len'] = len(op)
        st['open_item'] = [index.get(id(op[k]), -1) for k in range(len(op))]
        st['open_last'] = index.get(id(op[-1]), -1) if len(op) else -1
        st['open_member'] = [int(b in op) for b in tab]
    except Exception as e:
        st['open_rev'], st['open_len'], st['open_item'], st['open_last'], st['open_member'] = [-9], -9, [-9], -9, [-9]
    st['nodes'] = [dict(enc_node(n), step=int(getattr(n, 'step', -1))) for n in ids.nodes]
    return st


def enc_entry(tab, entry, ids):
    t = entry.target
    index = {id(b): i for i, b in enumerate(tab)}
    node = t.get('node')
    nodes = t.get('nodes') or ()
    adds = t.get('adds') or ()
    rule = entry.rule
    # what was on the target branch BEFORE this application (Node.step of the additions is the step just taken)
    this = tab.current_step - 1
    before = [n for n in t.branch if getattr(n, 'step', 0) < this]
    pre_worlds = sorted({w for n in before for w in n.worlds()})
    pre_consts = sorted({enc_key(c) for n in before if n.get('sentence') is not None for c in n['sentence'].constants})
    return {
        'pre_worlds': pre_worlds, 'pre_consts': [list(c) for c in pre_consts],
        'rule': rule.name, 'closure': int(bool(getattr(rule, 'closure', False)) or rule.name.endswith('Closure')),
        'ticking': int(bool(rule.ticking)),
        'branch': index.get(id(t.branch), -1),
        'node': -1 if node is None else ids.node(node),
        'nodes': [ids.node(n) for n in nodes],
        'adds': [[enc_node(n) for n in grp] for grp in adds],
        'flag': str(t.get('flag') or ''),
        'is_last': int(tab.history[-1] is entry),
    }


def enc_tree(tree, ids, tab):
    index = {b.id: i for i, b in enumerate(tab)}
    return {
        'nodes': [ids.node(n) for n in tree.nodes],
        'ticksteps': [-1 if x is None else int(x) for x in tree.ticksteps],
        'children': [enc_tree(c, ids, tab) for c in tree.children],
        'leaf': int(tree.leaf), 'closed': int(tree.closed), 'open': int(tree.open),
        'width': tree.width, 'depth': tree.depth, 'left': tree.left, 'right': tree.right,
        'descendant_node_count': tree.descendant_node_count,
        'structure_node_count': tree.structure_node_count,
        'has_open': int(tree.has_open), 'has_closed': int(tree.has_closed),
        'closed_step': -1 if tree.closed_step is None else int(tree.closed_step),
        'step': -1 if tree.step is None else int(tree.step),
        'branch': -1 if tree.branch_id is None else index.get(tree.branch_id, -2),
        'distinct_nodes': getattr(tree, 'distinct_nodes', -1) if tree.root else -1,
        'root': int(tree.root),
    }


def enc_model(tab, br, bi, ids):
    """Export the model the library built for an open branch, through its public
    attributes (frames, R, constants) plus value_of of every branch node."""
    m = br.model
    Meta = tab.logic.Meta
    worlds = sorted(m.frames)
    val = []
    for w in worlds:
        fr = m.frames[w]
        for s, v in fr.atomics.items():
            val.append([w, enc_sent(s), v.name])
        for s, v in fr.opaques.items():
            val.append([w, enc_sent(s), v.name])
        for pred, interp in fr.predicates.items():
            for params, v in interp.items():
                val.append([w, enc_sent(Predicated(pred, tuple(params))), v.name])
    R = [[w1, w2] for w1 in sorted(m.R) for w2 in sorted(m.R[w1])]
    # the serial completion may add a world that has no frame of its own
    allw = sorted(set(worlds) | {w for p in R for w in p})
    values = []
    for k, n in enumerate(br):
        s = n.get('sentence')
        if s is None:
            continue
        try:
            w = n.get('world')
            v = m.value_of(s, world=w) if w is not None else m.value_of(s)
            values.append([k, v.name])
        except Exception as e:
            values.append([k, f'!{type(e).__name__}'])
    try:
        icm = int(bool(m.is_countermodel_to(tab.argument)))
    except Exception as e:
        icm = -1
    data, same, derr = data_record(m)
    return {'M': export(m), 'data': data, 'data_same': same, 'data_err': derr,
            'branch': bi, 'W': allw, 'frame_worlds': worlds, 'R': R, 'C': [enc_param(c) for c in sorted(m.constants)],
            'val': val, 'values': values, 'is_countermodel': icm,
            'nodes': [enc_node(n) for n in br], 'quit': int(has_quit(br))}


def classify(tab):
    if not tab.finished or tab.premature:
        return 'limit'
    if tab.valid:
        return 'valid'
    if any(not has_quit(b) for b in tab.open):
        return 'invalid'
    return 'limit'


def run_job(job):
    global _witness_log
    level = job.get('level', 'verdict')
    full = level == 'full'
    arg = make_arg(job)
    opts = dict(is_group_optim=bool(job.get('g', 1)), is_rank_optim=bool(job.get('r', 1)),
                is_build_models=bool(job.get('models', 0)))
    ms = job.get('max_steps', -1)
    if ms is not None and ms >= 0:
        opts['max_steps'] = ms
    rec = {'id': job['id'], 'logic': job['logic'], 'arg': enc_arg(arg), 'argstr': arg.argstr(),
           'g': int(opts['is_group_optim']), 'r': int(opts['is_rank_optim']), 'mode': job.get('mode', 'build'),
           'max_steps': -1 if ms is None else ms, 'raised': '', 'events': [], 'witness': []}
    ids = Ids()
    events = rec['events']
    _witness_log = rec['witness']
    tab = None
    signal.alarm(int(job.get('timeout_s', 20)))
    try:
        tab = Tableau(job['logic'], arg, **opts)
        if level != 'verdict':
            events.append({'e': 'trunk', 'state': state(tab, ids, full),
                           'entry': _noentry(), 'returned': 0})
        if rec['mode'] == 'build' and not full:
            tab.build()
        else:
            while True:
                nw = len(rec['witness'])
                if rec['mode'] == 'peek':
                    # a step-by-step user may look at what the prover would do next without doing it
                    tab.next()
                entry = tab.step()
                if level != 'verdict':
                    ev = {'e': 'step', 'returned': int(entry is not None),
                          'entry': enc_entry(tab, entry, ids) if entry is not None else _noentry(),
                          'state': state(tab, ids, full)}
                    ev['witness_from'] = nw
                    events.append(ev)
                if entry is None:
                    break
        signal.alarm(0)
    except Watchdog:
        rec['raised'] = 'Watchdog'
    except Exception as e:
        signal.alarm(0)
        rec['raised'] = f'{type(e).__name__}: {e}'[:300]
    finally:
        signal.alarm(0)
        _witness_log = None
    if tab is None:
        rec['outcome'] = 'raise'
        return rec
    rec['outcome'] = 'raise' if rec['raised'] else classify(tab)
    if rec['raised'] and rec['raised'] != 'Watchdog' and job.get('models'):
        # the open branches whose models could not be built (root-cause attribution in C02)
        rec['open_nodes'] = [[enc_node(n) for n in b] for b in tab.open if not has_quit(b)][:4]
    rec['premature'] = int(tab.premature)
    rec['steps'] = len(tab.history)
    rec['nbranches'] = len(tab)
    rec['quit_flags'] = sum(1 for b in tab for n in b if n.get('flag') == 'quit')
    rec['rules'] = sorted({e.rule.name for e in tab.history})
    if level != 'verdict' and tab.finished and not rec['raised']:
        fin = {'e': 'finish', 'state': state(tab, ids, full)}
        if full and tab.tree is not None:
            fin['tree'] = enc_tree(tab.tree, ids, tab)
            fin['stats'] = {k: (v if isinstance(v, (int, str)) else -1) for k, v in tab.stats.items()
                            if k in ('result', 'branches', 'open_branches', 'closed_branches', 'steps', 'distinct_nodes')}
            fin['state']['nodes'] = [dict(enc_node(n), step=int(getattr(n, 'step', -1))) for n in ids.nodes]
        rec['final'] = fin
        if job.get('models'):
            rec['models'] = [enc_model(tab, b, i, ids) for i, b in enumerate(tab)
                             if not b.closed and b.model is not None]
    if level == 'verdict':
        del rec['events']
        if not rec['witness']:
            del rec['witness']
    return rec


def _noentry():
    return {'rule': '', 'closure': 0, 'ticking': 0, 'branch': -1, 'node': -1, 'nodes': [], 'adds': [],
            'flag': '', 'is_last': 0, 'pre_worlds': [], 'pre_consts': []}


def main(jobs, out, shard, nshards):
    shard, nshards = int(shard), int(nshards)
    registry.import_all()
    with open(jobs) as f, open(out, 'w') as o:
        for k, line in enumerate(f):
            if k % nshards != shard:
                continue
            job = json.loads(line)
            try:
                rec = run_job(job)
            except Exception as e:     # driver-level problem: surface it, never hide it
                rec = {'id': job['id'], 'logic': job['logic'], 'driver_error': f'{type(e).__name__}: {e}'[:300]}
            o.write(json.dumps(rec, separators=(',', ':')) + '\n')


if __name__ == '__main__':
    main(*sys.argv[1:])
