"""Argument corpora (encoded sentences, DESIGN.md 2.2).  Pure python, seeded."""
from __future__ import annotations

import random

UN = ['Assertion', 'Negation']
BIN = ['Conjunction', 'Disjunction', 'MaterialConditional', 'MaterialBiconditional', 'Conditional', 'Biconditional']
MOD = ['Possibility', 'Necessity']


def A(i): return ['A', i, 0]
def C(i): return ['c', i, 0]
def V(i): return ['v', i, 0]
def O(op, *xs): return ['O', op, list(xs)]
def Neg(x): return O('Negation', x)
def P(pred, *params): return ['P', list(pred), list(params)]
def Q(q, v, s): return ['Q', q, v, s]


F1, G1, H2 = [0, 0, 1], [1, 0, 1], [2, 0, 2]
IDENT, EXIST = [-1, 0, 2], [-2, 0, 1]


def rand_prop(rng, depth, natoms=3, modal=False, leaf=None):
    if depth <= 0 or rng.random() < 0.18:
        return leaf(rng) if leaf else A(rng.randrange(natoms))
    r = rng.random()
    if modal and r < 0.3:
        return O(rng.choice(MOD), rand_prop(rng, depth - 1, natoms, modal, leaf))
    if r < (0.5 if modal else 0.3):
        return O(rng.choice(UN) if rng.random() < 0.25 else 'Negation', rand_prop(rng, depth - 1, natoms, modal, leaf))
    return O(rng.choice(BIN), rand_prop(rng, depth - 1, natoms, modal, leaf), rand_prop(rng, depth - 1, natoms, modal, leaf))


def rand_fo(rng, depth, modal=False, bound=(), nconst=3, identity=True):
    """closed, non-vacuous first-order sentence"""
    def term():
        if bound and rng.random() < 0.6:
            return rng.choice(bound)
        return C(rng.randrange(nconst))

    def atom():
        r = rng.random()
        if identity and r < 0.12:
            return P(IDENT, term(), term())
        if identity and r < 0.16:
            return P(EXIST, term())
        if r < 0.35:
            return P(H2, term(), term())
        return P(rng.choice([F1, G1]), term())

    def uses(s, v):
        if s[0] == 'P':
            return v in s[2]
        if s[0] == 'Q':
            return uses(s[3], v)
        if s[0] == 'O':
            return any(uses(x, v) for x in s[2])
        return False

    if depth <= 0 or rng.random() < 0.15:
        return atom()
    r = rng.random()
    if r < 0.3 and len(bound) < 3:
        v = V(len(bound))
        for _ in range(20):
            body = rand_fo(rng, depth - 1, modal, bound + (v,), nconst, identity)
            if uses(body, v):
                return Q(rng.choice(['Existential', 'Universal']), v, body)
        return Q(rng.choice(['Existential', 'Universal']), v, P(F1, v))
    if modal and r < 0.45:
        return O(rng.choice(MOD), rand_fo(rng, depth - 1, modal, bound, nconst, identity))
    if r < 0.6:
        return Neg(rand_fo(rng, depth - 1, modal, bound, nconst, identity))
    return O(rng.choice(BIN), rand_fo(rng, depth - 1, modal, bound, nconst, identity),
             rand_fo(rng, depth - 1, modal, bound, nconst, identity))


def rand_argument(rng, kind, modal):
    """kind: 'prop' | 'modal' | 'fo'"""
    npre = rng.choice([0, 1, 1, 2, 2, 3])
    if kind == 'prop':
        mk = lambda d: rand_prop(rng, d, 3, False)
    elif kind == 'modal':
        mk = lambda d: rand_prop(rng, d, 2, True)
    else:
        mk = lambda d: rand_fo(rng, d, modal and rng.random() < 0.5)
    return {'prems': [mk(rng.choice([1, 2, 3])) for _ in range(npre)], 'conc': mk(rng.choice([1, 2, 3]))}


# ---- fixed schemas that exercise the ingredients of known defects and typical rules ----
def schemas():
    a, b, c = A(0), A(1), A(2)
    ca, cb, cc = C(0), C(1), C(2)
    x, y = V(0), V(1)
    Fx, Gx = P(F1, x), P(G1, x)
    Fa, Fb, Ga, Gb = P(F1, ca), P(F1, cb), P(G1, ca), P(G1, cb)
    L = lambda s: O('Necessity', s)
    M = lambda s: O('Possibility', s)
    out = {
        'mp': ([a, O('MaterialConditional', a, b)], b),
        'cond-mp': ([a, O('Conditional', a, b)], b),
        'bicond': ([], O('Biconditional', a, b)),
        'mbicond-fde': ([O('MaterialBiconditional', a, b)], O('Disjunction', O('Conjunction', a, b), O('Conjunction', Neg(a), Neg(b)))),
        'lem': ([], O('Disjunction', a, Neg(a))),
        'explosion': ([a, Neg(a)], b),
        'dm': ([Neg(O('Conjunction', a, b))], O('Disjunction', Neg(a), Neg(b))),
        'fresh-witness': ([Neg(Fb), Ga, Q('Existential', x, Fx)], a),
        'fresh-witness2': ([Neg(P(F1, cc)), Gb, Ga, Q('Existential', x, Fx)], a),
        'ex-from-univ': ([Q('Universal', x, Fx)], Q('Existential', x, Fx)),
        'univ-from-ex': ([Q('Existential', x, Fx)], Q('Universal', x, Fx)),
        'syllogism': ([Q('Universal', x, O('MaterialConditional', Fx, Gx)), Fa], Ga),
        'ident-indisc': ([P(IDENT, ca, cb), Fa], Fb),
        'ident-modal': ([P(IDENT, ca, cb), M(Fa)], Fb),
        'ident-sym': ([P(IDENT, ca, cb)], P(IDENT, cb, ca)),
        'self-ident': ([], P(IDENT, ca, ca)),
        'exist': ([], P(EXIST, ca)),
        'nec-elim': ([L(a)], a),
        'poss-intro': ([a], M(a)),
        'k-dist': ([L(O('MaterialConditional', a, b)), L(a)], L(b)),
        's4': ([L(a)], L(L(a))),
        's5': ([M(a)], L(M(a))),
        'serial': ([L(a)], M(a)),
        'two-serial': ([M(a), M(b), Neg(M(L(O('Conjunction', c, Neg(c)))))], O('Conjunction', a, Neg(a))),
        'np': ([Neg(M(Neg(a)))], L(a)),
        'modal-sat': ([O('Disjunction', Neg(M(b)), L(a)), M(Neg(a))], L(L(b))),
        'barcan': ([Q('Universal', x, L(Fx))], L(Q('Universal', x, Fx))),
        'qmodal': ([M(Q('Existential', x, Fx))], Q('Existential', x, M(Fx))),
        'two-univ': ([Q('Universal', x, Q('Existential', y, P(H2, x, y)))], Q('Existential', y, Q('Universal', x, P(H2, x, y)))),
        # order-sensitive shapes: a constant that first occurs inside a later quantified premise / under a later modal premise
        'ord-univ-const': ([Q('Universal', x, Fx), Q('Universal', x, P(H2, x, ca))], Q('Existential', x, O('Conjunction', Fx, P(H2, x, ca)))),
        'ord-univ-const2': ([Q('Universal', x, O('MaterialConditional', Fx, Gx)), Q('Universal', x, P(H2, x, cb)), Q('Universal', x, Fx)],
                            Q('Existential', x, O('Conjunction', Gx, P(H2, x, cb)))),
        'ord-exist-univ': ([Q('Existential', x, Fx), Q('Universal', x, O('MaterialConditional', Fx, P(H2, x, ca)))],
                           Q('Existential', x, P(H2, x, ca))),
        'ord-nec-poss': ([L(a), M(b), L(O('MaterialConditional', a, c)), M(Neg(c))], M(O('Conjunction', a, b))),
        'ord-nec-nec': ([L(L(a)), M(M(b))], M(M(O('Conjunction', a, b)))),
        'ord-modal-exist': ([M(Q('Existential', x, Fx)), L(Q('Universal', x, Neg(Fx))), Fa], b),
        'ord-modal-exist2': ([Fa, M(Q('Existential', x, O('Conjunction', Fx, Gx))), L(Q('Universal', x, O('MaterialConditional', Fx, Neg(Gx))))], b),
        'ord-modal-univ': ([L(Q('Universal', x, Fx)), M(Neg(Fa))], b),
        'serial-two-box': ([M(L(a)), M(L(Neg(a)))], b),
        'serial-two-box2': ([M(L(a)), M(L(b)), L(M(c))], M(O('Conjunction', a, b))),
        'ord-many-diamonds': ([L(M(a)), M(L(Neg(a))), M(b), M(c), M(A(3))], A(4)),
        'ord-many-diamonds2': ([L(M(a)), M(b), M(c), L(O('MaterialConditional', b, L(Neg(a))))], A(4)),
        'ord-ident-both': ([P(IDENT, ca, cb), P(IDENT, cb, ca), Fa], Fb),
        'ord-ident-chain': ([P(IDENT, ca, cb), P(IDENT, cb, cc), Fa], P(F1, cc)),
        'ident-mixed': ([P(IDENT, ca, cb), P(H2, ca, cb)], P(H2, cb, ca)),
        'ident-mixed2': ([P(IDENT, ca, cb), P(H2, ca, ca)], P(H2, ca, cb)),
        'ord-ident-binary': ([P(IDENT, ca, cb), P(H2, ca, cc), P(IDENT, cb, ca)], P(H2, cb, cc)),
        'ord-mono-modal': ([L(a), M(b), M(c)], O('Conjunction', M(O('Conjunction', a, b)), M(O('Conjunction', a, c)))),
        # a possibility whose body already holds at the current world: the witness must still be a new world
        'poss-body-here': ([M(a), a, L(b)], b),
        'poss-body-here2': ([M(Neg(a)), Neg(a), L(O('MaterialConditional', a, b))], O('Disjunction', a, b)),
        'poss-body-here3': ([a, L(O('MaterialConditional', a, b)), M(a)], b),
        # an identity that holds at ANOTHER world than the predication it could rewrite
        'ident-under-poss': ([M(P(IDENT, ca, cb)), Fa], M(Fb)),
        'ident-under-poss2': ([M(P(IDENT, ca, cb)), M(Fa)], M(Fb)),
        'ident-under-nec': ([L(P(IDENT, ca, cb)), M(Fa)], M(Fb)),
        'ident-there-pred-here': ([M(O('Conjunction', P(IDENT, ca, cb), Ga)), Fa], Fb),
        # nested forks with worlds made on both sides of the second fork: what one sibling sees is not what the other sees
        'nested-fork-worlds': ([L(a), O('Disjunction', O('Conjunction', b, Neg(b)),
                                        O('Conjunction', M(c), O('Disjunction', M(O('Conjunction', A(3), Neg(A(3)))), L(M(Neg(a))))))], A(4)),
        'nested-fork-worlds2': ([L(a), O('Disjunction', O('Conjunction', M(c), O('Disjunction', L(M(Neg(a))), M(O('Conjunction', A(3), Neg(A(3)))))),
                                         O('Conjunction', b, Neg(b)))], A(4)),
        'nested-fork-worlds3': ([L(a), M(b), O('Disjunction', M(c), O('Disjunction', M(A(3)), L(M(Neg(a)))))], M(O('Conjunction', b, Neg(a)))),
        # a possibility arises at a SUCCESSOR of a world where its body already holds
        'poss-body-at-predecessor': ([a, M(c), L(M(a))], M(O('Conjunction', c, M(a)))),
        'poss-body-at-predecessor2': ([a, M(c), L(M(a)), L(L(A(4)))], M(O('Conjunction', c, M(O('Conjunction', a, A(4)))))),
        'poss-body-at-predecessor3': ([Neg(a), M(c), L(Neg(L(a))), L(L(b))], M(O('Conjunction', c, M(O('Conjunction', Neg(a), b))))),
        # a witness is needed at a world where some constant of the branch does not occur
        'wit-other-world': ([Fa, M(Q('Existential', x, Gx))], Gb),
        'wit-other-world2': ([Fa, Gb, M(Q('Existential', x, P(H2, x, ca)))], L(Fb)),
        'wit-other-world3': ([L(Fa), M(Neg(Q('Universal', x, Gx)))], M(Ga)),
        # the tableau forks BEFORE the world / constant generating nodes are worked on: each fork keeps its own books
        'fork-then-limit': ([O('Disjunction', L(O('Conjunction', M(a), M(Neg(a)))), L(O('Conjunction', M(b), M(Neg(b)))))], A(4)),
        'fork-then-limit2': ([O('Disjunction', L(O('Conjunction', M(a), M(Neg(a)))), L(O('Conjunction', M(b), M(Neg(b))))), c], A(4)),
        'fork-then-witnesses': ([O('Disjunction', a, b), Neg(a), Q('Existential', x, Fx), Q('Existential', x, Gx)],
                                O('Disjunction', Fb, Gb)),
        'fork-then-witnesses2': ([O('Disjunction', a, b), Q('Existential', x, Fx), Q('Existential', x, Gx), Q('Existential', x, P(H2, x, cb))],
                                 O('Disjunction', a, O('Disjunction', Fb, Gb))),
    }
    return {k: {'prems': v[0], 'conc': v[1]} for k, v in out.items()}


def kinds_for(logic, modal, quantified):
    ks = ['prop', 'prop']
    if modal:
        ks += ['modal', 'modal', 'modal']
    if quantified:
        ks += ['fo', 'fo']
    return ks


def corpus(seed, per_logic, logic_meta, tag, with_systematic=False):
    """logic_meta: {name: (modal, quantified)}; yields (logic, label, arg)"""
    sch = schemas()
    if with_systematic:
        sch = dict(sch)
        sch.update({'sys:' + k: v for k, v in systematic().items()})
    for L, (modal, quant) in sorted(logic_meta.items()):
        rng = random.Random(f'{seed}/{tag}/{L}')
        for k, a in sch.items():
            yield L, f'schema:{k}', a
        ks = kinds_for(L, modal, quant)
        for n in range(per_logic):
            kind = ks[n % len(ks)]
            yield L, f'rand:{kind}:{n}', rand_argument(rng, kind, modal)


def systematic(prop_only=False):
    """One-rule arguments: for every operator / quantifier / modal shape, small arguments whose verdict hinges on
    the rule for that shape in premise (designated/true) and conclusion (undesignated/negated) position, alone and
    in contexts that force gluts or gaps on an operand."""
    a, b, c = A(0), A(1), A(2)
    ca, cb = C(0), C(1)
    x = V(0)
    Fx, Fa, Fb, Ga = P(F1, x), P(F1, ca), P(F1, cb), P(G1, ca)
    out = {}

    def add(name, prems, conc):
        out[name] = {'prems': prems, 'conc': conc}

    shapes = [(op, O(op, a, b)) for op in BIN] + [(op, O(op, a)) for op in UN if op != 'Negation'] + [('DoubleNeg', Neg(Neg(a)))]
    for op, s in shapes:
        for tag, S in ((op, s), ('Neg' + op, Neg(s))):
            add(f'{tag}:elim-a', [S], a)
            add(f'{tag}:elim-na', [S], Neg(a))
            add(f'{tag}:intro-a', [a], S)
            add(f'{tag}:intro-na', [Neg(a)], S)
            add(f'{tag}:intro-b', [b], S)
            add(f'{tag}:intro-nb', [Neg(b)], S)
            add(f'{tag}:mp', [S, a], b)
            add(f'{tag}:mt', [S, Neg(b)], Neg(a))
            add(f'{tag}:glut-a', [S, a, Neg(a)], c)
            add(f'{tag}:glut-b', [S, b, Neg(b)], c)
            add(f'{tag}:gap', [S], O('Disjunction', c, O('Disjunction', a, Neg(a))))
            add(f'{tag}:self', [S], S)
            if len(s[2]) == 2:
                # literal contexts: the verdict depends on exactly one region of the operator's table
                for la, ta in ((a, 'a'), (Neg(a), 'na')):
                    for lb, tb in ((b, 'b'), (Neg(b), 'nb')):
                        add(f'{tag}:cell-{ta}-{tb}', [S, la, lb], c)
                # the literal that closes against the rule's output is produced LATER, by another (branching) rule
                for la, ta in ((a, 'a'), (Neg(a), 'na')):
                    for lb, tb in ((b, 'b'), (Neg(b), 'nb')):
                        add(f'{tag}:late-{ta}-{tb}', [lb, O('Disjunction', la, la)], S)
    # the SAME sentence on many nodes of one branch (index buckets, caches and counters behave differently when full)
    aa = O('Conjunction', a, a)
    ava = O('Disjunction', a, a)
    add('bulk:7a', [a] * 7, a)
    add('bulk:8na', [Neg(a)] * 8, Neg(a))
    add('bulk:conj', [O('Conjunction', aa, aa), O('Conjunction', aa, aa)], O('Disjunction', ava, ava))
    add('bulk:disj', [O('Disjunction', ava, ava)], O('Conjunction', O('Conjunction', aa, aa), aa))
    add('bulk:mixed', [a, aa, a, O('Conjunction', aa, a), a], O('Conjunction', a, O('Conjunction', aa, aa)))
    if prop_only:
        return out
    for q in ('Existential', 'Universal'):
        for tag, S in ((q, Q(q, x, Fx)), ('Neg' + q, Neg(Q(q, x, Fx)))):
            add(f'{tag}:from-Fa', [Fa], S)
            add(f'{tag}:from-nFa', [Neg(Fa)], S)
            add(f'{tag}:to-Fa', [S], Fa)
            add(f'{tag}:to-nFa', [S], Neg(Fa))
            add(f'{tag}:ctx', [S, Ga, Neg(Fb)], Fa)
            add(f'{tag}:ctx2', [S, Fb], Neg(Fa))
            add(f'{tag}:glut', [S, Fa, Neg(Fa)], c)
            add(f'{tag}:dual', [S], Neg(Q('Universal' if q == 'Existential' else 'Existential', x, Neg(Fx))))
    for m in MOD:
        for tag, S in ((m, O(m, a)), ('Neg' + m, Neg(O(m, a)))):
            add(f'{tag}:from-a', [a], S)
            add(f'{tag}:from-na', [Neg(a)], S)
            add(f'{tag}:to-a', [S], a)
            add(f'{tag}:to-na', [S], Neg(a))
            add(f'{tag}:dual', [S], Neg(O('Necessity' if m == 'Possibility' else 'Possibility', Neg(a))))
            add(f'{tag}:nest', [O('Possibility', b), S], O('Possibility', O('Conjunction', a, b)))
            add(f'{tag}:nest2', [O('Necessity', O('MaterialConditional', a, b)), S], O(m, b))
            add(f'{tag}:glut', [S, O('Necessity', O('Conjunction', a, Neg(a)))], c)
    # a quantifier under a modal operator and the other way round: the quantified sentence is evaluated / instantiated
    # at ANOTHER world than the one the argument starts in
    for m in MOD:
        for q in ('Existential', 'Universal'):
            QF = Q(q, x, Fx)
            S = O(m, QF)
            add(f'{m}{q}:out', [S], QF)
            add(f'{m}{q}:in', [QF], S)
            add(f'{m}{q}:inst', [S], O(m, Fa))
            add(f'{m}{q}:gen', [O(m, Fa)], S)
            add(f'{q}{m}:swap', [Q(q, x, O(m, Fx))], S)
            add(f'{q}{m}:swap2', [S], Q(q, x, O(m, Fx)))
    return out
