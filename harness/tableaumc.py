"""Pipeline C for the proof engine: TLC explores ALL schedules of the propositional calculus of a logic, with the
rule table extracted from the real rule objects (C04 driver).  Used by C03 and C09."""
import json

import common as C
from corpus import A, O, Neg

MC_CFG = ("SPECIFICATION Spec\nINVARIANT SatPreserved\nINVARIANT VerdictExact\nINVARIANT Saturated\n"
          "PROPERTY Termination\nCHECK_DEADLOCK FALSE\n")
GEN_CFG = "SPECIFICATION GenSpec\nPOSTCONDITION GenPost\nCHECK_DEADLOCK FALSE\n"

a, b, c = A(0), A(1), A(2)
ARGS = {
    'transitivity': {'prems': [O('MaterialConditional', a, b), O('MaterialConditional', b, c)], 'conc': O('MaterialConditional', a, c)},
    'cond-transitivity': {'prems': [O('Conditional', a, b), O('Conditional', b, c)], 'conc': O('Conditional', a, c)},
    'demorgan': {'prems': [Neg(O('Conjunction', a, b))], 'conc': O('Disjunction', Neg(a), Neg(b))},
    'demorgan2': {'prems': [O('Disjunction', Neg(a), Neg(b))], 'conc': Neg(O('Conjunction', a, b))},
    'ds': {'prems': [O('Disjunction', a, b), Neg(a)], 'conc': b},
    'lem': {'prems': [], 'conc': O('Disjunction', a, Neg(a))},
    'explosion': {'prems': [O('Conjunction', a, Neg(a))], 'conc': b},
    'mp': {'prems': [a, O('Conditional', a, b)], 'conc': b},
    'mt': {'prems': [O('Conditional', a, b), Neg(b)], 'conc': Neg(a)},
    'assert': {'prems': [O('Assertion', a)], 'conc': Neg(Neg(a))},
    'contraposition': {'prems': [O('MaterialConditional', a, b)], 'conc': O('MaterialConditional', Neg(b), Neg(a))},
    'distribution': {'prems': [O('Conjunction', a, O('Disjunction', b, c))], 'conc': O('Disjunction', O('Conjunction', a, b), O('Conjunction', a, c))},
    'affirming-consequent': {'prems': [O('Conditional', a, b), b], 'conc': a},
    'neg-cond': {'prems': [Neg(O('Conditional', a, b))], 'conc': O('Conjunction', a, Neg(b))},
}
BICOND = {
    'bicond-intro': {'prems': [O('Conditional', a, b), O('Conditional', b, a)], 'conc': O('Biconditional', a, b)},
    'mbicond-elim': {'prems': [O('MaterialBiconditional', a, b), a], 'conc': b},
    'bicond-neg': {'prems': [Neg(O('Biconditional', a, b)), a], 'conc': Neg(b)},
}
KNOWN_UNSOUND_FAMILIES = {'B3E', 'FDE'}
# weak-Kleene rule sets fork three ways and reduce to larger nodes: their schedule space is much larger
HEAVY = {'K3W', 'B3E'}
LIGHT_ARGS = ['ds', 'lem', 'explosion', 'mp', 'mt', 'assert', 'affirming-consequent', 'neg-cond', 'demorgan', 'contraposition']     # C04 findings: their biconditional rules break SatPreserved by design of the defect


def rules_for(rules, L, d, tag):
    """the rows of one logic, in a file of their own (TLC re-reads IOEnv-based definitions; small tables keep that cheap)"""
    out = d / f'{tag}-rules-{L}.ndjson'
    with open(out, 'w') as f:
        for line in open(rules):
            if json.loads(line)['logic'] == L:
                f.write(line)
    return out


def run(rep, logics, d, tag, workers=2, full=False):
    """returns number of violations reported"""
    g = C.tlc('C04_Exact', GEN_CFG, env={'CASES': '/dev/null'}, out_name='cases.ndjson', tag=f'{tag}mcgen', timeout=3000)
    shapes = d / f'{tag}-shapes.ndjson'
    with open(shapes, 'w') as f:
        for line in open(g.out_path):
            x = json.loads(line)
            if x['kind'] == 'op' and x['logic'] in logics:
                f.write(line)
    ns = 8
    C.run_drivers_parallel([('d_rules.py', [shapes, d / f'{tag}-rules{k}.ndjson', k, ns], {'hooks': False}) for k in range(ns)])
    rules = d / f'{tag}-rules.ndjson'
    with open(rules, 'w') as f:
        for k in range(ns):
            f.write(open(d / f'{tag}-rules{k}.ndjson').read())
    calls = []
    for L in logics:
        args = dict(ARGS)
        if L not in KNOWN_UNSOUND_FAMILIES:
            args.update(BICOND)
        if L in HEAVY:
            args = {k: v for k, v in args.items() if k in LIGHT_ARGS}
        elif not full:
            args = {k: v for k, v in args.items() if k in LIGHT_ARGS + ['transitivity', 'bicond-intro', 'demorgan2']}
        pf = d / f'{tag}-par-{L}.json'
        pf.write_text(json.dumps({'logic': L, 'args': list(args.values())}))
        calls.append(dict(module='TableauMC', cfg=MC_CFG, env={'RULES': rules_for(rules, L, d, tag), 'PAR': pf}, workers=workers, tag=f'{tag}mc{L}',
                          timeout=6000, xmx='3g', check=False))
    bad = 0
    for L, r in zip(logics, C.tlc_parallel(calls, nproc=max(1, C.NCPU // workers))):
        rep.add_tlc(r)
        rep.cov.setdefault('mc_per_logic', {})[L] = {'states': r.distinct, 'wall_s': round(r.wall, 1)}
        if r.violated or 'Temporal properties were violated' in r.out:
            which = [x for x in ('SatPreserved', 'VerdictExact', 'Saturated', 'Termination') if x in r.out.split('Error:')[-1][:400] or f'Invariant {x} is violated' in r.out]
            rep.violation({'kind': 'all_schedules_model', 'clause': (which or ['TemporalOrInvariant'])[0], 'logic': L},
                          {'tlc_tail': r.out[-3000:]})
            bad += 1
        elif r.error:
            raise C.MachineryError(f'TableauMC failed for {L}:\n{r.out[-2500:]}')
    return bad


# --------------------------------------------------------------------------
# modal calculus (TableauModalMC.tla)
# --------------------------------------------------------------------------
MODAL_CFG = ("SPECIFICATION Spec\nINVARIANT Saturated\nINVARIANT ModelSatisfiesBranch\nPROPERTY Termination\nCHECK_DEADLOCK FALSE\n")


def modal_args():
    L = lambda s: O('Necessity', s)
    M = lambda s: O('Possibility', s)
    return {
        'nec-elim': {'prems': [L(a)], 'conc': a},
        'poss-intro': {'prems': [a], 'conc': M(a)},
        'k-dist': {'prems': [L(O('MaterialConditional', a, b)), L(a)], 'conc': L(b)},
        'poss-conj': {'prems': [M(a), M(b)], 'conc': M(O('Conjunction', a, b))},
        's4': {'prems': [L(a)], 'conc': L(L(a))},
        'serial': {'prems': [L(a)], 'conc': M(a)},
        'np': {'prems': [Neg(M(Neg(a)))], 'conc': L(a)},
        'nec-poss': {'prems': [L(a), M(b)], 'conc': M(O('Conjunction', a, b))},
        'two-nec': {'prems': [L(a), L(b), M(c)], 'conc': M(O('Conjunction', a, O('Conjunction', b, c)))},
    }


def run_modal(rep, logics, d, tag, maxw=3, workers=2, full=False):
    g = C.tlc('C04_Exact', GEN_CFG, env={'CASES': '/dev/null'}, out_name='cases.ndjson', tag=f'{tag}mmgen', timeout=3000)
    shapes = d / f'{tag}-mshapes.ndjson'
    with open(shapes, 'w') as f:
        for line in open(g.out_path):
            x = json.loads(line)
            if x['kind'] in ('op', 'modal') and x['logic'] in logics:
                f.write(line)
    ns = 8
    C.run_drivers_parallel([('d_rules.py', [shapes, d / f'{tag}-mrules{k}.ndjson', k, ns], {'hooks': False}) for k in range(ns)])
    rules = d / f'{tag}-mrules.ndjson'
    with open(rules, 'w') as f:
        for k in range(ns):
            f.write(open(d / f'{tag}-mrules{k}.ndjson').read())
    all_args = modal_args()
    calls = []
    for L in logics:
        # 'two-nec' (three modal premises) is affordable only where the frame rules add nothing (K-based logics):
        # with reflexive / transitive closure its schedule space exceeds an hour of TLC time
        args = {k: v for k, v in all_args.items() if k != 'two-nec' or (full and L in ('K', 'D', 'KFDE'))}
        if 'K3WQ' in L:
            # the K3WQ possibility rule adds a necessity node and three-way forks per witness: two witnesses are out of reach
            args = {k: v for k, v in args.items() if k not in ('poss-conj', 'nec-poss')}
        pf = d / f'{tag}-mpar-{L}.json'
        pf.write_text(json.dumps({'logic': L, 'args': list(args.values()), 'maxw': maxw}))
        calls.append(dict(module='TableauModalMC', cfg=MODAL_CFG, env={'RULES': rules_for(rules, L, d, tag + 'm'), 'PAR': pf}, workers=workers,
                          tag=f'{tag}mm{L}', timeout=6000, xmx='3g', check=False))
    bad = 0
    for L, r in zip(logics, C.tlc_parallel(calls, nproc=max(1, C.NCPU // workers))):
        rep.add_tlc(r)
        rep.cov.setdefault('modal_mc_per_logic', {})[L] = {'states': r.distinct, 'wall_s': round(r.wall, 1)}
        if r.violated or 'Temporal properties were violated' in r.out:
            which = [x for x in ('Saturated', 'ModelSatisfiesBranch', 'Termination') if f'Invariant {x} is violated' in r.out]
            rep.violation({'kind': 'all_schedules_model', 'clause': (which or ['Termination'])[0], 'logic': L,
                           'logic_family': L, 'root': 'model-layer'},
                          {'tlc_tail': r.out[-3000:]})
            bad += 1
        elif r.error:
            raise C.MachineryError(f'TableauModalMC failed for {L}:\n{r.out[-2500:]}')
    return bad


# --------------------------------------------------------------------------
# first-order calculus (TableauFOMC.tla)
# --------------------------------------------------------------------------
FO_CFG = ("SPECIFICATION Spec\nINVARIANT Saturated\nINVARIANT ModelSatisfiesBranch\nINVARIANT VerdictAsRecorded\nINVARIANT SoundWhenClosed\n"
          "PROPERTY Termination\nCHECK_DEADLOCK FALSE\n")
FO_HEAVY = {'K3W', 'B3E', 'GO', 'K3WQ'}
FO_LIGHT = ['univ-elim', 'exist-intro', 'exist-elim-bad', 'univ-intro-bad', 'univ-exist', 'syllogism', 'quant-neg', 'quant-neg2',
            'univ-conj', 'two-consts', 'lem-univ']
FO_LOGICS = ['CFOL', 'FDE', 'K3', 'LP', 'L3', 'RM3', 'K3W', 'K3WQ', 'B3E', 'G3', 'GO', 'MH', 'NH']


def fo_args():
    from corpus import C as K, F1, G1, H2, P as Pr, Q, V
    x, y = V(0), V(1)
    ca, cb = K(0), K(1)
    Fx, Gx, Fa, Ga, Fb = Pr(F1, x), Pr(G1, x), Pr(F1, ca), Pr(G1, ca), Pr(F1, cb)
    U = lambda v, s: Q('Universal', v, s)
    E = lambda v, s: Q('Existential', v, s)
    return {
        'univ-elim': {'prems': [U(x, Fx)], 'conc': Fa},
        'exist-intro': {'prems': [Fa], 'conc': E(x, Fx)},
        'exist-elim-bad': {'prems': [E(x, Fx)], 'conc': Fa},
        'univ-intro-bad': {'prems': [Fa], 'conc': U(x, Fx)},
        'univ-exist': {'prems': [U(x, Fx)], 'conc': E(x, Fx)},
        'syllogism': {'prems': [U(x, O('MaterialConditional', Fx, Gx)), Fa], 'conc': Ga},
        'two-witnesses': {'prems': [E(x, Fx), E(x, Gx)], 'conc': E(x, O('Conjunction', Fx, Gx))},
        'quant-neg': {'prems': [Neg(E(x, Fx))], 'conc': U(x, Neg(Fx))},
        'quant-neg2': {'prems': [Neg(U(x, Fx))], 'conc': E(x, Neg(Fx))},
        'univ-conj': {'prems': [U(x, O('Conjunction', Fx, Gx))], 'conc': O('Conjunction', U(x, Fx), U(x, Gx))},
        'exist-disj': {'prems': [E(x, O('Disjunction', Fx, Gx))], 'conc': O('Disjunction', E(x, Fx), E(x, Gx))},
        'swap-valid': {'prems': [E(x, U(y, Pr(H2, x, y)))], 'conc': U(y, E(x, Pr(H2, x, y)))},
        'two-consts': {'prems': [U(x, Fx), Neg(Fb)], 'conc': Ga},
        'lem-univ': {'prems': [], 'conc': U(x, O('Disjunction', Fx, Neg(Fx)))},
    }


def run_fo(rep, logics, d, tag, workers=2, full=False):
    """All schedules of the first-order calculus of each logic, rule table extracted from the real rule objects, verdicts
    compared with what the real prover reports for the same arguments."""
    import proofs as P
    g = C.tlc('C04_Exact', GEN_CFG, env={'CASES': '/dev/null'}, out_name='cases.ndjson', tag=f'{tag}fogen', timeout=3000)
    shapes = d / f'{tag}-foshapes.ndjson'
    with open(shapes, 'w') as f:
        for line in open(g.out_path):
            x = json.loads(line)
            if x['logic'] in logics and (x['kind'] == 'op' or (x['kind'] == 'quant' and x['k'] == 1)):
                f.write(line)
    ns = 8
    C.run_drivers_parallel([('d_rules.py', [shapes, d / f'{tag}-forules{k}.ndjson', k, ns], {'hooks': False}) for k in range(ns)])
    rules = d / f'{tag}-forules.ndjson'
    with open(rules, 'w') as f:
        for k in range(ns):
            f.write(open(d / f'{tag}-forules{k}.ndjson').read())
    all_args = fo_args()

    def args_of(L):
        # weak-Kleene style rule sets (three-way forks, translated quantifiers) have a much larger schedule space
        names = FO_LIGHT if L in FO_HEAVY else (list(all_args) if full else FO_LIGHT + ['two-witnesses'])
        if L == 'GO' and not full:
            names = [n for n in names if n != 'quant-neg']
        return {k: all_args[k] for k in names}
    # what the real prover reports for these arguments (default options)
    jobs = [{'id': f'{name}/{L}', 'logic': L, 'arg': a, 'g': 1, 'r': 1, 'mode': 'build', 'level': 'verdict', 'max_steps': 500}
            for L in logics for name, a in args_of(L).items()]
    expect = {r['id']: ('limit' if r['raised'] else r['outcome']) for r in P.read_records(P.run_jobs(jobs, f'{tag}fo'))}
    calls = []
    for L in logics:
        pf = d / f'{tag}-fopar-{L}.json'
        pf.write_text(json.dumps({'logic': L, 'args': [dict(a, expect=expect[f'{name}/{L}']) for name, a in args_of(L).items()]}))
        calls.append(dict(module='TableauFOMC', cfg=FO_CFG, env={'RULES': rules_for(rules, L, d, tag + 'fo'), 'PAR': pf}, workers=workers, tag=f'{tag}fo{L}',
                          timeout=6000, xmx='3g', check=False))
    bad = 0
    for L, r in zip(logics, C.tlc_parallel(calls, nproc=max(1, C.NCPU // workers))):
        rep.add_tlc(r)
        rep.cov.setdefault('fo_mc_per_logic', {})[L] = {'states': r.distinct, 'wall_s': round(r.wall, 1),
                                                        'arguments': len(args_of(L)),
                                                        'verdicts': sorted({expect[f'{name}/{L}'] for name in args_of(L)})}
        if r.violated or 'Temporal properties were violated' in r.out:
            which = [x for x in ('Saturated', 'ModelSatisfiesBranch', 'VerdictAsRecorded', 'SoundWhenClosed') if f'Invariant {x} is violated' in r.out]
            rep.violation({'kind': 'all_schedules_model', 'clause': (which or ['Termination'])[0], 'logic': L,
                           'logic_family': L, 'root': 'model-layer'},
                          {'tlc_tail': r.out[-3000:]})
            bad += 1
        elif r.error:
            raise C.MachineryError(f'TableauFOMC failed for {L}:\n{r.out[-2500:]}')
    return bad
