"""Pipeline C for the proof engine: TLC explores ALL schedules of the propositional calculus of a logic, with the
rule table extracted from the real rule objects (C04 driver).  Used by C03 and C09."""
import json

import common as C
from corpus import A, O, Neg

MC_CFG = ("SPECIFICATION Spec\nINVARIANT SatPreserved\nINVARIANT VerdictExact\nINVARIANT Saturated\n"
          "PROPERTY Termination\nCHECK_DEADLOCK FALSE\n")
GEN_CFG = "SPECIFICATION GenSpec\nPOSTCONDITION GenPost\nCHECK_DEADLOCK FALSE\n"

a, b, c = A(0), A(1), A(2)
ARGS = {
    'transitivity': {'prems': [O('MaterialConditional', a, b), O('MaterialConditional', b, c)], 'conc': O('MaterialConditional', a, c)},
    'cond-transitivity': {'prems': [O('Conditional', a, b), O('Conditional', b, c)], 'conc': O('Conditional', a, c)},
    'demorgan': {'prems': [Neg(O('Conjunction', a, b))], 'conc': O('Disjunction', Neg(a), Neg(b))},
    'demorgan2': {'prems': [O('Disjunction', Neg(a), Neg(b))], 'conc': Neg(O('Conjunction', a, b))},
    'ds': {'prems': [O('Disjunction', a, b), Neg(a)], 'conc': b},
    'lem': {'prems': [], 'conc': O('Disjunction', a, Neg(a))},
    'explosion': {'prems': [O('Conjunction', a, Neg(a))], 'conc': b},
    'mp': {'prems': [a, O('Conditional', a, b)], 'conc': b},
    'mt': {'prems': [O('Conditional', a, b), Neg(b)], 'conc': Neg(a)},
    'assert': {'prems': [O('Assertion', a)], 'conc': Neg(Neg(a))},
    'contraposition': {'prems': [O('MaterialConditional', a, b)], 'conc': O('MaterialConditional', Neg(b), Neg(a))},
    'distribution': {'prems': [O('Conjunction', a, O('Disjunction', b, c))], 'conc': O('Disjunction', O('Conjunction', a, b), O('Conjunction', a, c))},
    'affirming-consequent': {'prems': [O('Conditional', a, b), b], 'conc': a},
    'neg-cond': {'prems': [Neg(O('Conditional', a, b))], 'conc': O('Conjunction', a, Neg(b))},
}
BICOND = {
    'bicond-intro': {'prems': [O('Conditional', a, b), O('Conditional', b, a)], 'conc': O('Biconditional', a, b)},
    'mbicond-elim': {'prems': [O('MaterialBiconditional', a, b), a], 'conc': b},
    'bicond-neg': {'prems': [Neg(O('Biconditional', a, b)), a], 'conc': Neg(b)},
}
KNOWN_UNSOUND_FAMILIES = {'B3E', 'FDE'}
# weak-Kleene rule sets fork three ways and reduce to larger nodes: their schedule space is much larger
HEAVY = {'K3W', 'B3E'}
LIGHT_ARGS = ['ds', 'lem', 'explosion', 'mp', 'mt', 'assert', 'affirming-consequent', 'neg-cond', 'demorgan', 'contraposition']     # C04 findings: their biconditional rules break SatPreserved by design of the defect


def run(rep, logics, d, tag, workers=2, full=False):
    """returns number of violations reported"""
    g = C.tlc('C04_Exact', GEN_CFG, env={'CASES': '/dev/null'}, out_name='cases.ndjson', tag=f'{tag}mcgen', timeout=3000)
    shapes = d / f'{tag}-shapes.ndjson'
    with open(shapes, 'w') as f:
        for line in open(g.out_path):
            x = json.loads(line)
            if x['kind'] == 'op' and x['logic'] in logics:
                f.write(line)
    ns = 8
    C.run_drivers_parallel([('d_rules.py', [shapes, d / f'{tag}-rules{k}.ndjson', k, ns], {'hooks': False}) for k in range(ns)])
    rules = d / f'{tag}-rules.ndjson'
    with open(rules, 'w') as f:
        for k in range(ns):
            f.write(open(d / f'{tag}-rules{k}.ndjson').read())
    calls = []
    for L in logics:
        args = dict(ARGS)
        if L not in KNOWN_UNSOUND_FAMILIES:
            args.update(BICOND)
        if L in HEAVY:
            args = {k: v for k, v in args.items() if k in LIGHT_ARGS}
        elif not full:
            args = {k: v for k, v in args.items() if k in LIGHT_ARGS + ['transitivity', 'bicond-intro', 'demorgan2']}
        pf = d / f'{tag}-par-{L}.json'
        pf.write_text(json.dumps({'logic': L, 'args': list(args.values())}))
        calls.append(dict(module='TableauMC', cfg=MC_CFG, env={'RULES': rules, 'PAR': pf}, workers=workers, tag=f'{tag}mc{L}',
                          timeout=1800, xmx='3g', check=False))
    bad = 0
    for L, r in zip(logics, C.tlc_parallel(calls, nproc=max(1, C.NCPU // workers))):
        rep.add_tlc(r)
        rep.cov.setdefault('mc_per_logic', {})[L] = {'states': r.distinct, 'wall_s': round(r.wall, 1)}
        if r.violated or 'Temporal properties were violated' in r.out:
            which = [x for x in ('SatPreserved', 'VerdictExact', 'Saturated', 'Termination') if x in r.out.split('Error:')[-1][:400] or f'Invariant {x} is violated' in r.out]
            rep.violation({'kind': 'all_schedules_model', 'clause': (which or ['TemporalOrInvariant'])[0], 'logic': L},
                          {'tlc_tail': r.out[-3000:]})
            bad += 1
        elif r.error:
            raise C.MachineryError(f'TableauMC failed for {L}:\n{r.out[-2500:]}')
    return bad


# --------------------------------------------------------------------------
# modal calculus (TableauModalMC.tla)
# --------------------------------------------------------------------------
MODAL_CFG = ("SPECIFICATION Spec\nINVARIANT Saturated\nINVARIANT ModelSatisfiesBranch\nPROPERTY Termination\nCHECK_DEADLOCK FALSE\n")


def modal_args():
    L = lambda s: O('Necessity', s)
    M = lambda s: O('Possibility', s)
    return {
        'nec-elim': {'prems': [L(a)], 'conc': a},
        'poss-intro': {'prems': [a], 'conc': M(a)},
        'k-dist': {'prems': [L(O('MaterialConditional', a, b)), L(a)], 'conc': L(b)},
        'poss-conj': {'prems': [M(a), M(b)], 'conc': M(O('Conjunction', a, b))},
        's4': {'prems': [L(a)], 'conc': L(L(a))},
        'serial': {'prems': [L(a)], 'conc': M(a)},
        'np': {'prems': [Neg(M(Neg(a)))], 'conc': L(a)},
        'nec-poss': {'prems': [L(a), M(b)], 'conc': M(O('Conjunction', a, b))},
        'two-nec': {'prems': [L(a), L(b), M(c)], 'conc': M(O('Conjunction', a, O('Conjunction', b, c)))},
    }


def run_modal(rep, logics, d, tag, maxw=3, workers=2, full=False):
    g = C.tlc('C04_Exact', GEN_CFG, env={'CASES': '/dev/null'}, out_name='cases.ndjson', tag=f'{tag}mmgen', timeout=3000)
    shapes = d / f'{tag}-mshapes.ndjson'
    with open(shapes, 'w') as f:
        for line in open(g.out_path):
            x = json.loads(line)
            if x['kind'] in ('op', 'modal') and x['logic'] in logics:
                f.write(line)
    ns = 8
    C.run_drivers_parallel([('d_rules.py', [shapes, d / f'{tag}-mrules{k}.ndjson', k, ns], {'hooks': False}) for k in range(ns)])
    rules = d / f'{tag}-mrules.ndjson'
    with open(rules, 'w') as f:
        for k in range(ns):
            f.write(open(d / f'{tag}-mrules{k}.ndjson').read())
    args = modal_args()
    if not full:
        args = {k: v for k, v in args.items() if k not in ('two-nec',)}
    calls = []
    for L in logics:
        pf = d / f'{tag}-mpar-{L}.json'
        pf.write_text(json.dumps({'logic': L, 'args': list(args.values()), 'maxw': maxw}))
        calls.append(dict(module='TableauModalMC', cfg=MODAL_CFG, env={'RULES': rules, 'PAR': pf}, workers=workers,
                          tag=f'{tag}mm{L}', timeout=2400, xmx='3g', check=False))
    bad = 0
    for L, r in zip(logics, C.tlc_parallel(calls, nproc=max(1, C.NCPU // workers))):
        rep.add_tlc(r)
        rep.cov.setdefault('modal_mc_per_logic', {})[L] = {'states': r.distinct, 'wall_s': round(r.wall, 1)}
        if r.violated or 'Temporal properties were violated' in r.out:
            which = [x for x in ('Saturated', 'ModelSatisfiesBranch', 'Termination') if f'Invariant {x} is violated' in r.out]
            rep.violation({'kind': 'all_schedules_model', 'clause': (which or ['Termination'])[0], 'logic': L,
                           'logic_family': L, 'root': 'model-layer'},
                          {'tlc_tail': r.out[-3000:]})
            bad += 1
        elif r.error:
            raise C.MachineryError(f'TableauModalMC failed for {L}:\n{r.out[-2500:]}')
    return bad
