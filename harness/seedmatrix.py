"""Run the primary check (and optional extra checks) of every stored seed; record the result in meta.json.
usage: seedmatrix.py [tier] [seed ids...]"""
import json
import os
import re
import subprocess
import sys

HERE = os.path.dirname(os.path.dirname(os.path.abspath(__file__)))
EXTRA = {'C01': ['C04'], 'C03': ['C04'], 'C10-B': ['C02'], 'C06-B': ['C04'], 'C13-B': ['C18'], 'C09-A': ['C02']}
tier = sys.argv[1] if len(sys.argv) > 1 else 'quick'
ids = sys.argv[2:] or sorted(os.listdir(os.path.join(HERE, 'seeded')))
for sid in ids:
    d = os.path.join(HERE, 'seeded', sid)
    mp = os.path.join(d, 'meta.json')
    if not os.path.exists(mp):
        continue
    meta = json.load(open(mp))
    prop = meta['property']
    checks = [prop] + ([] if os.environ.get('SEEDMATRIX_PRIMARY_ONLY') else EXTRA.get(sid, EXTRA.get(prop, [])))
    r = subprocess.run([sys.executable, os.path.join(HERE, 'harness', 'seedtest.py'), os.path.join(d, 'patch.diff'), tier, *checks],
                       capture_output=True, text=True)
    det = meta.setdefault('detected_by', {})
    for line in r.stdout.splitlines():
        m = re.match(r'(C\d+) exit=(\d+) :: (.*)', line)
        if m:
            det[f'{m.group(1)}:{tier}'] = {'exit': int(m.group(2)), 'summary': m.group(3)[:400]}
    json.dump(meta, open(mp, 'w'), indent=1)
    print(sid, {k: v['exit'] for k, v in det.items()}, flush=True)
