"""Print the DESIGN.md table of seeded changes from seeded/*/meta.json."""
import json
import os
import re

HERE = os.path.dirname(os.path.dirname(os.path.abspath(__file__)))
rows = []
for sid in sorted(os.listdir(os.path.join(HERE, 'seeded'))):
    mp = os.path.join(HERE, 'seeded', sid, 'meta.json')
    if not os.path.exists(mp):
        continue
    m = json.load(open(mp))
    diff = open(os.path.join(HERE, 'seeded', sid, 'patch.diff')).read()
    files = sorted(set(re.findall(r'^\+\+\+ b/(\S+)', diff, re.M)))
    det = m.get('detected_by', {})
    caught = [k.split(':')[0] for k, v in det.items() if v['exit'] == 1]
    missed = [k.split(':')[0] for k, v in det.items() if v['exit'] == 0]
    clause = ''
    for k, v in det.items():
        if v['exit'] == 1:
            c = re.findall(r'"clause": "(\w+)"', v['summary'])
            clause = ', '.join(sorted(set(c))[:3])
            break
    one = m.get('one_line') or m['what_and_needs'].strip().splitlines()[0][:110]
    rows.append(f"| {sid} | {', '.join(f.replace('pytableaux/', '') for f in files)} | {one} | {', '.join(caught) or '-'}"
                f"{' (missed by ' + ', '.join(missed) + ')' if missed else ''} | {clause} |")
print('| seed | file(s) | change | caught by (quick tier) | clauses |')
print('|---|---|---|---|---|')
print('\n'.join(rows))
