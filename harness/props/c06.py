"""C06 -- new constants and new worlds are always fresh.

Pipeline C: TLC model-checks BranchFresh.tla (all append/copy histories) for
Fresh and CopyIndependent.  Pipeline B+A: TLC enumerates every history up to
depth d; each is executed on real Branch objects, every live branch observed
after every operation, and validated by TLC (contract + model step).  Binding
2: every new_constant()/new_world() request made during real proofs of the
shared corpus is intercepted and validated (the item was not on the branch).
"""
import json

import common as C
import proofs as P
import tracemc

GEN_CFG = "SPECIFICATION GenSpec\nPOSTCONDITION GenPost\nCHECK_DEADLOCK FALSE\n"
VAL_CFG = "SPECIFICATION Spec\nINVARIANT Publish\nPOSTCONDITION Post\nCHECK_DEADLOCK FALSE\n"
MC_CFG = ("SPECIFICATION Spec\nCONSTANTS MaxBranches = 3\nMaxDepth = %d\nINVARIANT InvFresh\n"
          "INVARIANT InvCopyIndependent\nCHECK_DEADLOCK FALSE\n")


def run(rep):
    rep.group_keys = ('kind', 'clause')
    d = C.subdir('c06')
    thorough = rep.tier == 'thorough'
    mc = C.tlc('BranchFresh', MC_CFG % (6 if thorough else 5), workers=8, tag='c06mc', timeout=1800)
    if mc.violated:
        rep.violation({'kind': 'design', 'clause': 'InvFresh'}, {'tlc': mc.out[-3000:]})
    rep.add_tlc(mc)
    rep.cov['mc_states'] = mc.distinct
    depth = 4 if thorough else 3
    (d / 'par.json').write_text(json.dumps({'depth': depth}))
    g = C.tlc('C06_Trace', GEN_CFG, env={'CASES': '/dev/null', 'PAR': d / 'par.json'}, out_name='hist.ndjson', tag='c06gen',
              timeout=1800, xmx='6g')
    rep.add_tlc(g)
    nh = sum(1 for _ in open(g.out_path))
    ns = C.NCPU
    C.run_drivers_parallel([('d_branch.py', [g.out_path, d / f'obs{k}.ndjson', k, ns], {}) for k in range(ns)])
    # witness requests intercepted in real proofs
    jobs = P.corpus_jobs(rep.seed, 40 if thorough else 8, 'c06', 'final', orders=2, max_steps=150, mode='step', systematic=True)
    outs = P.run_jobs(jobs, 'c06')
    wit = []
    nsteps = 0
    for r in P.read_records(outs):
        for k, w in enumerate(r.get('witness', [])):
            wit.append(dict(w, rec='witness', id=f"{r['id']}#{k}", item=w['item'] or ['c', -1, -1]))
        for k, ev in enumerate(r.get('events', [])):
            e = ev['entry']
            if ev['e'] == 'step' and any(n['k'] == 'a' for g in e['adds'] for n in g):
                nsteps += 1
                wit.append({'rec': 'step', 'id': f"{r['id']}@{k}", 'rule': e['rule'], 'adds': e['adds'], 'pre_worlds': e['pre_worlds']})
    wfiles = []
    for k, sh in enumerate(C.shard(wit, 4)):
        f = d / f'wit{k}.ndjson'
        C.write_ndjson(f, sh)
        wfiles.append(f)
    files = [d / f'obs{k}.ndjson' for k in range(ns)] + wfiles
    res = C.tlc_parallel([dict(module='C06_Trace', cfg=VAL_CFG, env={'CASES': f, 'PAR': d / 'par.json'},
                               tag=f'c06val{k}', timeout=3000) for k, f in enumerate(files)])
    total = 0
    drift = 0
    for r in res:
        if r.json is None:
            raise C.MachineryError('C06: validator wrote no result\n' + r.out[-1500:])
        total += r.json['n']
        rep.add_tlc(r, traces=r.json['n'])
        for f in r.json['bad']:
            if f['kind'] == 'drift':
                drift += 1
                if drift <= 3:
                    print('MODEL-DRIFT C06:', json.dumps(f)[:300])
                continue
            rep.violation({'kind': 'freshness', 'clause': f['clause'], 'op': f['op']['op'], 'event': f['event']}, f)
    # every witness STEP of full proof traces, judged with the extracted rule table (TraceMC.tla): a witness-type rule
    # (ticking quantifier rule, possibility-type modal rule, Serial) must bring exactly one constant / world that occurs
    # nowhere on the branch, however it obtained it; a universal-type rule must not make one up
    tjobs = [j for j in P.corpus_jobs(rep.seed + 2, 30 if thorough else 6, 'c06t', 'full', orders=2, max_steps=100, systematic=thorough)
             if any(P.LOGIC_META[j['logic']])]
    tracemc.validate(rep, P.read_records(P.run_jobs(tjobs, 'c06t')), d, 'c06',
                     only=lambda cl: cl.startswith('Witness') or cl.startswith('UniversalStepMakesUp'), kind='freshness')
    if total != nh + len(wit):
        raise C.MachineryError(f'C06: expected {nh + len(wit)} records, validated {total}')
    rep.cov['model_drift'] = drift
    rep.cov['histories'] = nh
    rep.cov['witness_requests'] = len(wit) - nsteps
    rep.cov['witness_steps'] = nsteps
    rep.cov['evaluations'] = nh * depth + len(wit)
    rep.cov['distinct_nontrivial'] = nh
    rep.cov['rule'] = (f'every history of exactly {depth} append/copy operations over 11 node kinds (3 constants, 3 worlds, access pairs) '
                       'and <=3 branches (TLC-generated; all distinct) + every witness request intercepted in corpus proofs')
    rep.cov['exhaustive'] = True
    with open(d / 'obs1.ndjson') as f:
        rep.sample(json.loads(f.readline()))
    if wit:
        rep.sample(wit[0])
