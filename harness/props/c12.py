"""C12 -- sentences and arguments survive a write/parse round trip.

Pipeline B+A: TLC (C12_Round.tla, Notation.tla, Lex.tla) generates the sentence
space decorated with indexes/subscripts/all ten operators and, per sentence, the
Polish string and the standard-notation variants x whitespace patterns (symbol
tables are read from the package).  The real parsers parse every string; the real
Polish-ASCII writer output is re-parsed; argstr() is rebuilt; every registered
(notation, format, dialect) x writer options renders the whole space and TLC
checks injectivity.
"""
import json

import common as C

GEN_CFG = "SPECIFICATION GenSpec\nPOSTCONDITION GenPost\nCHECK_DEADLOCK FALSE\n"
VAL_CFG = "SPECIFICATION Spec\nINVARIANT Publish\nPOSTCONDITION Post\nCHECK_DEADLOCK FALSE\n"


def run(rep):
    rep.group_keys = ('rec', 'clause', 'notation')
    d = C.subdir('c12')
    thorough = rep.tier == 'thorough'
    C.run_driver('d_notation.py', ['tables', d / 'tables.json'], hooks=False)
    (d / 'par.json').write_text(json.dumps({'n': 2, 'stride': 2 if thorough else 12}))
    env = {'PAR': d / 'par.json', 'TABLES': d / 'tables.json'}
    g = C.tlc('C12_Round', GEN_CFG, env=dict(env, CASES='/dev/null'), out_name='sents.ndjson', tag='c12gen', timeout=1800, xmx='6g')
    rep.add_tlc(g)
    sents = g.out_path
    n = sum(1 for _ in open(sents))
    ns = C.NCPU - 1
    jobs = [('d_notation.py', ['replay', sents, d / f'obs{k}.ndjson', k, ns], {'hooks': False}) for k in range(ns)]
    jobs.append(('d_notation.py', ['writers', sents, d / 'writers.ndjson'], {'hooks': False}))
    C.run_drivers_parallel(jobs)
    files = [d / f'obs{k}.ndjson' for k in range(ns)] + [d / 'writers.ndjson']
    res = C.tlc_parallel([dict(module='C12_Round', cfg=VAL_CFG, env=dict(env, CASES=f), tag=f'c12val{k}', timeout=3400, xmx='4g')
                          for k, f in enumerate(files)])
    total = 0
    nstrings = 0
    for r in res:
        if r.json is None:
            raise C.MachineryError('C12: validator wrote no result\n' + r.out[-1500:])
        total += r.json['n']
        rep.add_tlc(r, traces=r.json['n'])
        for f in r.json['bad']:
            det = f['detail'] if isinstance(f['detail'], dict) else {}
            rep.violation({'kind': 'notation', 'rec': f['rec'], 'clause': f['clause'], 'notation': det.get('notation', ''),
                           'writer': det.get('got', '') if f['rec'] == 'writer' else ''}, f)
    with open(d / 'obs0.ndjson') as f:
        for k, line in enumerate(f):
            c = json.loads(line)
            if c['rec'] == 'sentence':
                nstrings += len(c['parsed'])
                if k < 2:
                    rep.sample({'s': c['s'], 'strings': [p['str'] for p in c['parsed']][:6], 'written': c['written']})
    rep.cov['evaluations'] = total
    rep.cov['sentences'] = n
    rep.cov['strings_parsed_estimate'] = nstrings * ns
    rep.cov['distinct_nontrivial'] = n
    rep.cov['rule'] = ('sentences = Lex.tla grammar (<=2 connectives/quantifiers, thinned at the top size) decorated with indexes 0..4, '
                       'subscripts {0,1,9,10,12345} and all ten operators; per sentence 2 Polish strings and up to 12 standard strings; '
                       'distinct = sentences')
