"""C17 -- limits and lifecycle.

Pipeline C: TLC model-checks Lifecycle.tla (all interleavings of the seven calls,
every configuration with n <= 3, every limit, with/without an expired time limit)
against the contract clauses.  Pipeline B+A: TLC enumerates every call sequence
of length d; each is replayed on real tableaux of known natural length in every
configuration; TLC validates every recorded call against the contract clauses
(violation) and against the model step (drift).
"""
import json

import common as C

GEN_CFG = "SPECIFICATION GenSpec\nPOSTCONDITION GenPost\nCHECK_DEADLOCK FALSE\n"
VAL_CFG = "SPECIFICATION Spec\nINVARIANT Publish\nPOSTCONDITION Post\nCHECK_DEADLOCK FALSE\n"
MC_CFG = "SPECIFICATION MSpec\nCONSTANT MaxN = %d\nINVARIANT ModelSatisfiesContracts\nINVARIANT TypeOK\nCHECK_DEADLOCK FALSE\n"

ARGS = [('CPL', 'a:a'), ('CPL', 'b:a:Cab'), ('CPL', 'b:a'), ('K3', 'AaNa'), ('FDE', 'NKab:ANaNb'), ('S4', 'LLa:La'),
        ('K', 'Mb:Ma'), ('CFOL', 'SxFx:VxFx')]


def configs():
    out = []
    import subprocess
    # natural lengths are measured by the driver; limits are generated generously (0..5) and the
    # spec only needs limit as given
    for logic, argstr in ARGS:
        for mode in ('auto', 'manual', 'noarg', 'hand'):
            for limit in (-1, 0, -2, 1, 2, 3, 4, 5, 6):
                out.append({'logic': logic, 'argstr': argstr, 'mode': mode, 'limit': limit, 'tmo': 0})
            out.append({'logic': logic, 'argstr': argstr, 'mode': mode, 'limit': -1, 'tmo': 1})
            out.append({'logic': logic, 'argstr': argstr, 'mode': mode, 'limit': 2, 'tmo': 1})
        out.append({'logic': logic, 'argstr': argstr, 'mode': 'auto', 'limit': -1, 'tmo': 2})
    return out


def run(rep):
    rep.group_keys = ('kind', 'clause', 'call')
    d = C.subdir('c17')
    thorough = rep.tier == 'thorough'
    mc = C.tlc('Lifecycle', MC_CFG % (4 if thorough else 3), workers=8, tag='c17mc', timeout=900,
               extra=['-coverage', '1'])
    if mc.violated:
        rep.violation({'kind': 'design', 'clause': 'ModelSatisfiesContracts'}, {'tlc': mc.out[-3000:]})
    rep.add_tlc(mc)
    rep.cov['mc_states'] = mc.distinct
    depth = 4 if thorough else 3
    (d / 'par.json').write_text(json.dumps({'depth': depth}))
    g = C.tlc('C17_Trace', GEN_CFG, env={'CASES': '/dev/null', 'PAR': d / 'par.json'}, out_name='seqs.ndjson', tag='c17gen')
    rep.add_tlc(g)
    cfgs = configs()
    (d / 'configs.json').write_text(json.dumps(cfgs))
    ns = C.NCPU
    C.run_drivers_parallel([('d_lifecycle.py', [g.out_path, d / 'configs.json', d / f'obs{k}.ndjson', k, ns], {'timeout': 7200})
                            for k in range(ns)])
    res = C.tlc_parallel([dict(module='C17_Trace', cfg=VAL_CFG, env={'CASES': d / f'obs{k}.ndjson', 'PAR': d / 'par.json'},
                               tag=f'c17val{k}', timeout=3000) for k in range(ns)])
    total = 0
    drift = 0
    for r in res:
        if r.json is None:
            raise C.MachineryError('C17: validator wrote no result\n' + r.out[-1500:])
        total += r.json['n']
        rep.add_tlc(r, traces=r.json['n'])
        for f in r.json['bad']:
            if f['kind'] == 'drift':
                drift += 1
                if drift <= 5:
                    print('MODEL-DRIFT C17:', json.dumps(f)[:400])
                continue
            rep.violation({'kind': 'lifecycle', 'clause': f['clause'], 'call': f['call'], 'ret': f['ret'],
                           'mode': f['cfg']['mode'], 'pre_finished': f['pre']['finished'], 'pre_started': f['pre']['started']}, f)
    nseq = sum(1 for _ in open(g.out_path))
    nskip = sum(1 for c in cfgs if c['tmo'] == 2)       # cumulative-timeout configurations need a proof of >= 3 steps
    nhand = sum(1 for c in cfgs if c['mode'] == 'hand')  # hand-made branches: sequences over step / finish / build only
    nhseq = sum(1 for l in open(g.out_path) if all(c in ('step', 'finish', 'build') for c in json.loads(l)['calls']))
    hi = nseq * (len(cfgs) - nhand) + nhseq * nhand
    if not (hi - nseq * nskip <= total <= hi):
        raise C.MachineryError(f'C17: expected about {hi} traces, validated {total}')
    rep.cov['model_drift'] = drift
    rep.cov['evaluations'] = total * depth
    rep.cov['distinct_nontrivial'] = total
    rep.cov['rule'] = (f'every call sequence of length {depth} over the 7 public calls (TLC-generated, {nseq}) x {len(cfgs)} configurations '
                       '(8 arguments x auto/manual/no-argument/hand-made branch without trunk x step limits None,0,negative,1..6 x expired time limit); all distinct')
    rep.cov['exhaustive'] = True
    with open(d / 'obs0.ndjson') as f:
        for k, line in enumerate(f):
            if k == 700:
                rep.sample(json.loads(line))
    rep.assumptions += ['the wall-clock time limit is driven deterministically (build_timeout=1e-9 expires as soon as the build timer has run); when a real limit fires is not covered']


def replay(rep, path):
    p = json.load(open(path))['payload']
    print(json.dumps(p, indent=1))
    print('re-run: ./check C17 (the violating trace id names configuration/sequence)')
    return 1
