"""C07 -- each logic's truth tables are the documented ones.

Pipeline: the driver dumps every logic's published tables; TLC (C07_Tables.tla)
compares every entry with the literature tables of Semantics.tla, checks the
value set / designated set / unassigned value, table completeness and the
definitional identities on the code's own tables.  Exhaustive in both tiers.
"""
import json

import common as C

CFG = """SPECIFICATION Spec
INVARIANT Publish
POSTCONDITION Post
CHECK_DEADLOCK FALSE
"""


def run(rep):
    d = C.subdir('c07')
    cases = d / 'tables.ndjson'
    modes = ['all', 'lazy:0', 'lazy:1', 'lazy:2'] + (['lazy:3', 'lazy:4', 'lazy:5'] if rep.tier == 'thorough' else [])
    C.run_drivers_parallel([('d_tables.py', [d / f'tables-{k}.ndjson', m], {'hooks': False}) for k, m in enumerate(modes)])
    with open(cases, 'w') as f:
        for k in range(len(modes)):
            f.write(open(d / f'tables-{k}.ndjson').read())
    recs = [json.loads(l) for l in open(cases)]
    r = C.tlc('C07_Tables', CFG, env={'CASES': cases}, timeout=600)
    if r.json is None:
        raise C.MachineryError('C07: TLC wrote no result\n' + r.out[-2000:])
    if r.json['n'] != len(recs):
        raise C.MachineryError('C07: TLC saw a different number of cases')
    rep.add_tlc(r, traces=len(recs))
    nrows = sum(len(t['rows']) for c in recs for t in c.get('tables', []))
    rep.cov['evaluations'] = nrows
    rep.cov['distinct_nontrivial'] = len({(c['logic'], t['op'], tuple(r['ins'])) for c in recs for t in c.get('tables', []) for r in t['rows']})
    rep.cov['rule'] = ('every (logic, operator, value tuple) row of Model.truth_table for the 8 truth-functional operators, asked in several histories (forward, reversed, again; logics imported on demand in 3+ orders), '
                       'operators of all registered logics; distinct = (logic, operator, value tuple) triples (each asked in every history); non-trivial = all of them')
    rep.cov['exhaustive'] = True
    rep.cov['logics'] = len({c['logic'] for c in recs if c['logic']})
    rep.cov['phases'] = modes
    rep.sample({'logic': recs[0]['logic'], 'table': recs[0]['tables'][2]})
    rep.assumptions += ['Semantics.tla transcribes the documented/literature tables correctly (cross-checked by C04/C08)']
    for f in r.json['bad']:
        sig = {'kind': 'table', 'clause': f['clause'], 'logic': f['logic'], 'operator': f['operator'],
               'inputs': list(f['inputs']), 'got': f['got'], 'want': f['want'],
               'cell': f"{f['operator']}:{','.join(map(str, f['inputs']))}:{f['got']}"}
        rep.violation(sig, f)
