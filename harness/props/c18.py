"""C18 -- ordered-set containers stay a set and a sequence at once.

Pipeline B+A: TLC (C18_Trace.tla) enumerates every operation sequence of depth d
over ~30 operation instances for qset, linqset and the predicate store; each is
executed on the real container, the full observation (list, len, membership,
index, getitem, reversed, lookups by reference) logged after every operation, and
TLC validates every step against the list-without-duplicates model (Containers.tla).
Random longer sequences extend the depth bound.
"""
import json
import random

import common as C

GEN_CFG = "SPECIFICATION GenSpec\nPOSTCONDITION GenPost\nCHECK_DEADLOCK FALSE\n"
VAL_CFG = "SPECIFICATION Spec\nINVARIANT Publish\nPOSTCONDITION Post\nCHECK_DEADLOCK FALSE\n"
CLASSES = ['qset', 'linqset', 'Predicates']


def run(rep):
    rep.group_keys = ('container', 'clause', 'op')
    d = C.subdir('c18')
    thorough = rep.tier == 'thorough'
    depth = 3
    (d / 'par.json').write_text(json.dumps({'depth': depth}))
    gens = C.tlc_parallel([dict(module='C18_Trace', cfg=GEN_CFG, env={'CASES': '/dev/null', 'PAR': d / 'par.json', 'CLS': cls},
                                out_name='seqs.ndjson', tag=f'c18gen{cls}', timeout=1800, xmx='6g') for cls in CLASSES])
    files = []
    nseq = 0
    alphabet = {}
    for cls, g in zip(CLASSES, gens):
        rep.add_tlc(g)
        files.append(g.out_path)
        with open(g.out_path) as f:
            first = None
            ops = {}
            for line in f:
                nseq += 1
                t = json.loads(line)
                for e in t['ops']:
                    ops[json.dumps(e, sort_keys=True)] = e
            alphabet[cls] = list(ops.values())
    # random long sequences beyond the exhaustive depth
    rng = random.Random(f'{rep.seed}/c18')
    nrand = 20000 if thorough else 1500
    rf = d / 'rand.ndjson'
    with open(rf, 'w') as f:
        for n in range(nrand):
            cls = CLASSES[n % 3]
            ln = rng.choice([5, 8, 12, 20] if not thorough else [6, 12, 25, 40])
            f.write(json.dumps({'id': 10_000_000 + n, 'cls': cls, 'ops': [rng.choice(alphabet[cls]) for _ in range(ln)]}) + '\n')
    files.append(rf)
    nseq += nrand
    ns = C.NCPU
    jobs = []
    obs = []
    for fi, f in enumerate(files):
        for k in range(ns // 4 if fi < 3 else 4):
            n = ns // 4 if fi < 3 else 4
            out = d / f'obs{fi}-{k}.ndjson'
            obs.append(out)
            jobs.append(('d_containers.py', [f, out, k, n], {'hooks': False}))
    C.run_drivers_parallel(jobs)
    res = C.tlc_parallel([dict(module='C18_Trace', cfg=VAL_CFG, env={'CASES': f, 'PAR': d / 'par.json', 'CLS': 'qset'},
                               tag=f'c18val{k}', timeout=3400, xmx='3g') for k, f in enumerate(obs)])
    total = 0
    for r in res:
        if r.json is None:
            raise C.MachineryError('C18: validator wrote no result\n' + r.out[-1500:])
        total += r.json['n']
        rep.add_tlc(r, traces=r.json['n'])
        for f in r.json['bad']:
            e = f['e']
            shape = e['op'] + (':' + e['sl'] if e['sl'] else '') + (':repeated' if len(e['vals']) != len(set(e['vals'])) else '')
            rep.violation({'kind': 'container', 'container': f['cls'], 'clause': f['clause'], 'op': shape}, f)
    if total != nseq:
        raise C.MachineryError(f'C18: {nseq} sequences, {total} validated')
    rep.cov['evaluations'] = nseq
    rep.cov['exhaustive_depth'] = depth
    rep.cov['random_sequences'] = nrand
    rep.cov['distinct_nontrivial'] = nseq - nrand
    rep.cov['rule'] = (f'every sequence of {depth} operation instances over the alphabet of C18_Trace.tla (29 instances; 31 for linqset) for '
                       'qset, linqset and Predicates (TLC-generated, all distinct) + seeded random sequences of length 5..40')
    rep.cov['exhaustive'] = True
    with open(obs[0]) as f:
        for k, line in enumerate(f):
            if k == 500:
                t = json.loads(line)
                rep.sample({'cls': t['cls'], 'ops': [(e['e']['op'], e['res'], e['obs']['list']) for e in t['ops']]})
                break
