"""C20 -- the published description of a model says what the model evaluates.

Pipeline A over two sources of finished models, all 57 logics: models assembled
through the API (as in C08) and models read from open branches of invalid proofs
(as in C02).  TLC (C20_Export.tla) compares get_data() with the spec evaluator
world by world, tuple by tuple over ALL tuples of model constants.
"""
import json

import common as C
import proofs as P
from props import c02, c08

VAL_CFG = "SPECIFICATION Spec\nINVARIANT Publish\nPOSTCONDITION Post\nCHECK_DEADLOCK FALSE\n"
GLUT_F = {'LP', 'RM3', 'NH'}


def base_of(L):
    for p in ('S4', 'S5', 'K', 'T'):
        if L.startswith(p) and L != p and L not in ('K3', 'K3W', 'K3WQ'):
            return L[len(p):]
    return L


def run(rep):
    rep.group_keys = ('clause', 'logic_family', 'unassigned_is_F_with_gluts')
    d = C.subdir('c20')
    thorough = rep.tier == 'thorough'
    cases = []
    # (1) API-built models
    api = c08.build_cases(rep.seed, 24 if thorough else 6, 2, 'c20')
    for c in api:
        c['sents'] = []
    for f in c08.record(api, d, 'c20api'):
        for line in open(f):
            c = json.loads(line)
            ms = [{'M': r['M'], 'data': r['data'], 'data_same': r['data_same'], 'data_err': r.get('data_err', '')}
                  for r in c['runs'] if r['finish'] == 'ok']
            if ms:
                cases.append({'id': 'api/' + c['id'], 'logic': c['logic'], 'models': ms})
    napi = len(cases)
    # (2) models read from open branches
    bc, stats = c02.record_cases(rep, 'c20', 60 if thorough else 10, 2)
    for c in bc:
        ms = [{'M': m['M'], 'data': m['data'], 'data_same': m['data_same'], 'data_err': m['data_err']}
              for m in c['models'] if not m['quit']]
        if ms:
            cases.append({'id': 'branch/' + c['id'], 'logic': c['logic'], 'models': ms})
    shards = C.shard(cases, C.NCPU)
    calls = []
    for k, sh in enumerate(shards):
        f = d / f'cases{k}.ndjson'
        C.write_ndjson(f, sh)
        calls.append(dict(module='C20_Export', cfg=VAL_CFG, env={'CASES': f}, tag=f'c20val{k}', timeout=3400, xmx='3g'))
    total = 0
    for res in C.tlc_parallel(calls):
        if res.json is None:
            raise C.MachineryError('C20: validator wrote no result\n' + res.out[-1500:])
        total += res.json['n']
        rep.add_tlc(res, traces=res.json['n'])
        for f in res.json['bad']:
            rep.violation({'kind': 'export', 'clause': f['clause'], 'logic_family': P.family(f['logic']), 'logic': f['logic'],
                           'unassigned_is_F_with_gluts': int(base_of(f['logic']) in GLUT_F),
                           'source': f['id'].split('/')[0]}, f)
    if total != len(cases):
        raise C.MachineryError('C20: TLC validated a different number of cases')
    nm = sum(len(c['models']) for c in cases)
    rep.cov['evaluations'] = nm
    rep.cov['api_built_cases'] = napi
    rep.cov['branch_model_cases'] = len(cases) - napi
    rep.cov['distinct_nontrivial'] = len(cases)
    rep.cov['rule'] = ('a case = the finished models of one API call set (2 orders) or of one invalid proof; evaluations = models whose '
                       'get_data() was compared; distinct = cases; non-trivial = all (every model has at least one stored cell)')
    rep.sample({'id': cases[0]['id'], 'data': cases[0]['models'][0]['data']})
