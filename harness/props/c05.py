"""C05 -- branches close exactly when their literals are unsatisfiable.

Pipeline B+A: TLC (C05_Closure.tla, GenSpec) enumerates every ordered literal
set per logic/kind/world assignment; the driver replays them on real branches;
TLC validates the recorded outcomes against Unsat / ValOK.
quick: all orders at one world + all world assignments in two fixed orders;
thorough: full product.
"""
import json

import common as C

GEN_CFG = "SPECIFICATION GenSpec\nPOSTCONDITION GenPost\nCHECK_DEADLOCK FALSE\n"
VAL_CFG = "SPECIFICATION Spec\nINVARIANT Publish\nPOSTCONDITION Post\nCHECK_DEADLOCK FALSE\n"


def generate(rep, full):
    d = C.subdir('c05')
    r = C.tlc('C05_Closure', GEN_CFG, env={'FULL': '1' if full else '0', 'CASES': '/dev/null'},
              out_name='cases.ndjson', timeout=900, tag='c05gen', check=False)
    cases = r.out_path
    if not cases.exists():
        raise C.MachineryError('C05: generator produced no cases\n' + r.out[-2000:])
    rep.add_tlc(r)
    return d, cases


def validate(rep, d, cases, n_expected=None):
    ns = C.NCPU
    jobs = [('d_closure.py', [cases, d / f'obs{k}.ndjson', k, ns], {}) for k in range(ns)]
    C.run_drivers_parallel(jobs)
    calls = [dict(module='C05_Closure', cfg=VAL_CFG, env={'CASES': d / f'obs{k}.ndjson', 'FULL': '0'},
                  tag=f'c05val{k}', timeout=900) for k in range(ns)]
    res = C.tlc_parallel(calls)
    total = 0
    for r in res:
        if r.json is None:
            raise C.MachineryError('C05: validator wrote no result\n' + r.out[-1500:])
        total += r.json['n']
        rep.add_tlc(r, traces=r.json['n'])
        for f in r.json['bad']:
            lits = [f"{'~' if l['neg'] else ''}S{l['d']}@{l['w']}" for l in f['lits']]
            rep.violation({'kind': 'closure', 'logic': f['logic'], 'sentence_kind': f['kind'],
                           'clause': f['clause'], 'literals': sorted(lits)},
                          {'case': f, 'ordered_literals': lits})
    return total


def run(rep):
    d, cases = generate(rep, rep.tier == 'thorough')
    n = sum(1 for _ in open(cases))
    total = validate(rep, d, cases)
    if total != n:
        raise C.MachineryError(f'C05: {n} cases generated, {total} validated')
    nontriv = 0
    with open(cases) as f:
        for k, line in enumerate(f):
            c = json.loads(line)
            if len(c['lits']) >= 2:
                nontriv += 1
            if k in (3, 4000, 15000):
                rep.sample(c)
    rep.cov['evaluations'] = n
    rep.cov['distinct_nontrivial'] = nontriv
    rep.cov['rule'] = ('cases are the elements of the TLA+ set GenCases (distinct by construction: logic x literal-sentence kind '
                       'x ordered subset of {S, ~S} x marks x world assignment); non-trivial = at least two literals')
    rep.cov['exhaustive'] = True
    rep.assumptions += ['Semantics.tla negation tables (validated against the code by C07)',
                        'literal kinds: atom, predication, opaque quantified/modal sentence, identity, self-identity, existence']


def replay(rep, path):
    payload = json.load(open(path))['payload']['case']
    d = C.subdir('c05r')
    case = {k: payload[k] for k in ('id', 'logic', 'kind', 'lits')}
    # the generator's sentence for that kind
    gen = {'atom': ['A', 0, 0], 'pred': ['P', [0, 0, 1], [['c', 0, 0]]],
           'opaqueQ': ['Q', 'Existential', ['v', 0, 0], ['P', [0, 0, 1], [['v', 0, 0]]]],
           'opaqueM': ['O', 'Possibility', [['A', 0, 0]]],
           'selfid': ['P', [-1, 0, 2], [['c', 0, 0], ['c', 0, 0]]],
           'ident': ['P', [-1, 0, 2], [['c', 0, 0], ['c', 1, 0]]],
           'exist': ['P', [-2, 0, 1], [['c', 0, 0]]],
           'identsub': ['P', [-1, 0, 2], [['c', 0, 0], ['c', 0, 1]]], 'existsub': ['P', [-2, 0, 1], [['c', 0, 1]]]}
    case['s'] = gen[case['kind']]
    cases = d / 'one.ndjson'
    C.write_ndjson(cases, [case])
    C.run_driver('d_closure.py', [cases, d / 'obs.ndjson', 0, 1])
    r = C.tlc('C05_Closure', VAL_CFG, env={'CASES': d / 'obs.ndjson', 'FULL': '0'}, tag='c05replay')
    print(open(d / 'obs.ndjson').read())
    if r.json['bad']:
        print(f'VIOLATION property=C05 replay={path}')
        print(json.dumps(r.json['bad'], indent=1))
        return 1
    print('replay: property held on this case')
    return 0
