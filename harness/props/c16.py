"""C16 -- a tableau's bookkeeping is consistent at every step.

Pipeline A: proofs of the shared corpus (all 57 logics, option combinations,
order seeds, with and without a step limit) are run through Tableau.step() with
the full projected state logged after the trunk and after every step, then the
tree and stats; TLC (C16_Trace.tla + Tableau.tla) validates every consecutive
pair of states against the contract clauses.
"""
import json

import common as C
import proofs as P

VAL_CFG = "SPECIFICATION Spec\nINVARIANT Publish\nPOSTCONDITION Post\nCHECK_DEADLOCK FALSE\n"


def run(rep):
    rep.group_keys = ('clause',)
    d = C.subdir('c16')
    thorough = rep.tier == 'thorough'
    jobs = P.corpus_jobs(rep.seed, 60 if thorough else 12, 'c16', 'full', orders=8 if thorough else 2,
                         max_steps=60, mode='step')
    # a third of the proofs get a small step limit so that premature tableaux (with a tree) are covered
    for n, j in enumerate(jobs):
        if n % 3 == 0:
            j['max_steps'] = 1 + n % 7
    outs = P.run_jobs(jobs, 'c16')
    recs = []
    nevents = 0
    for r in P.read_records(outs):
        r['hasfinal'] = int('final' in r and 'tree' in r.get('final', {}))
        if r['raised'] == 'Watchdog':
            continue            # cut by the harness watchdog, not by the code: no claim
        r.pop('witness', None)
        nevents += len(r['events'])
        recs.append(r)
    shards = C.shard(recs, C.NCPU)
    calls = []
    for k, sh in enumerate(shards):
        f = d / f'traces{k}.ndjson'
        C.write_ndjson(f, sh)
        calls.append(dict(module='C16_Trace', cfg=VAL_CFG, env={'CASES': f}, tag=f'c16val{k}', timeout=3000, xmx='3g'))
    total = 0
    for res in C.tlc_parallel(calls):
        if res.json is None:
            raise C.MachineryError('C16: validator wrote no result\n' + res.out[-1500:])
        total += res.json['n']
        rep.add_tlc(res, traces=res.json['n'])
        for f in res.json['bad']:
            rep.violation({'kind': 'bookkeeping', 'clause': f['clause'], 'rule': f['rule'], 'logic': f['logic'],
                           'argstr': f['argstr'], 'event': f['event']}, f)
    if total != len(recs):
        raise C.MachineryError('C16: TLC validated a different number of traces')
    rep.cov['evaluations'] = nevents
    rep.cov['events'] = nevents
    rep.cov['distinct_nontrivial'] = len({(r['logic'], r['argstr'], r['g'], r['r']) for r in recs
                                          if r.get('steps', 0) >= 2 and r.get('nbranches', 0) >= 2})
    rep.cov['rule'] = ('one trace per (logic, argument, options, order seed); evaluations = recorded events (full state each); '
                       'distinct by (logic, argument, options); non-trivial = at least 2 rule applications and 2 branches')
    rep.cov['premature_traces'] = sum(1 for r in recs if r.get('premature'))
    r0 = recs[1]
    rep.sample({'id': r0['id'], 'argstr': r0['argstr'], 'events': len(r0['events']),
                'first_step': r0['events'][1]['entry'] if len(r0['events']) > 1 else None})
