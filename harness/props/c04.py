"""C04 -- every single expansion step preserves satisfiability exactly.

Pipeline B+A: TLC (C04_Exact.tla GenSpec) enumerates every compound node shape
of every logic; the driver expands each with the real rule objects; TLC decides
Sound / Invertible / StaysAtWorld / MissingRule over the complete value space.
Frame rules: every access set over <= 3 worlds (C04_Frames.tla).
"""
import json

import common as C

GEN_CFG = "SPECIFICATION GenSpec\nPOSTCONDITION GenPost\nCHECK_DEADLOCK FALSE\n"
VAL_CFG = "SPECIFICATION Spec\nINVARIANT Publish\nPOSTCONDITION Post\nCHECK_DEADLOCK FALSE\n"


def shapes(rep):
    d = C.subdir('c04')
    r = C.tlc('C04_Exact', GEN_CFG, env={'CASES': '/dev/null'}, out_name='cases.ndjson', tag='c04gen', timeout=3000)
    cases = r.out_path
    if not cases.exists():
        raise C.MachineryError('C04: generator produced no cases\n' + r.out[-2000:])
    rep.add_tlc(r)
    n = sum(1 for _ in open(cases))
    ns = C.NCPU
    C.run_drivers_parallel([('d_rules.py', [cases, d / f'obs{k}.ndjson', k, ns], {}) for k in range(ns)])
    # expensive modal cases are spread evenly because sharding is round-robin
    res = C.tlc_parallel([dict(module='C04_Exact', cfg=VAL_CFG, env={'CASES': d / f'obs{k}.ndjson'},
                               tag=f'c04val{k}', timeout=3000) for k in range(ns)])
    total = 0
    for r in res:
        if r.json is None:
            raise C.MachineryError('C04: validator wrote no result\n' + r.out[-1500:])
        total += r.json['n']
        rep.add_tlc(r, traces=r.json['n'])
        for f in r.json['bad']:
            rep.violation({'kind': 'rule', 'logic': f['logic'], 'shape': f"{f['kind']}:{f['sym']}:neg{f['neg']}:{f['d']}",
                           'clause': f['clause']}, f)
    if total != n:
        raise C.MachineryError(f'C04: {n} cases generated, {total} validated')
    rules = set()
    for k in range(ns):
        for line in open(d / f'obs{k}.ndjson'):
            c = json.loads(line)
            rules.update((c['logic'], x) for x in c['rules'])
            if c['id'] in (1, 1500, 3000):
                rep.sample({k2: c[k2] for k2 in ('logic', 'kind', 'sym', 'neg', 'd', 'k', 'b0', 'exts', 'rules')})
    rep.cov['rule_classes_exercised'] = len(rules)
    return n


REPRESENTATIVES = ['K', 'D', 'T', 'S4', 'S5', 'KFDE', 'TK3', 'S4FDE', 'S5LP', 'S4GO', 'TK3WQ', 'S5G3']


def frames(rep):
    d = C.subdir('c04f')
    if rep.tier == 'thorough':
        sel = {'full': ALL_MODAL, 'small': []}
    else:
        sel = {'full': REPRESENTATIVES, 'small': [x for x in ALL_MODAL if x not in REPRESENTATIVES]}
    r = C.tlc('C04_Frames', GEN_CFG, env={'CASES': '/dev/null', 'SEL': _json_file(d, sel)}, out_name='cases.ndjson',
              tag='c04fgen', timeout=3000)
    cases = r.out_path
    rep.add_tlc(r)
    n = sum(1 for _ in open(cases))
    ns = C.NCPU
    C.run_drivers_parallel([('d_frames.py', [cases, d / f'obs{k}.ndjson', k, ns], {}) for k in range(ns)])
    res = C.tlc_parallel([dict(module='C04_Frames', cfg=VAL_CFG, env={'CASES': d / f'obs{k}.ndjson', 'SEL': _json_file(d, sel)},
                               tag=f'c04fval{k}', timeout=1800) for k in range(ns)])
    total = 0
    for r in res:
        if r.json is None:
            raise C.MachineryError('C04 frames: validator wrote no result\n' + r.out[-1500:])
        total += r.json['n']
        rep.add_tlc(r, traces=r.json['n'])
        for f in r.json['bad']:
            acc = [list(p) for p in f['access']]
            unserial = sum(1 for w in f['worlds'] if not any(p[0] == w for p in acc))
            rep.violation({'kind': 'frame', 'logic': f['logic'], 'clause': f['clause'],
                           'access': acc, 'nworlds': len(f['worlds']), 'successorless_worlds_in_input': unserial,
                           'bare': f['bare'], 'split': f['split']}, f)
    if total != n:
        raise C.MachineryError(f'C04 frames: {n} cases generated, {total} validated')
    for line in open(d / 'obs3.ndjson'):
        c = json.loads(line)
        if len(c['access']) == 3:
            rep.sample({k: c[k] for k in ('logic', 'worlds', 'access', 'results')})
            break
    return n


def _json_file(d, obj):
    p = d / 'sel.json'
    p.write_text(json.dumps(obj))
    return p


ALL_MODAL = ['D', 'K', 'KB3E', 'KFDE', 'KG3', 'KK3', 'KK3W', 'KK3WQ', 'KL3', 'KLP', 'KRM3', 'S4', 'S4B3E', 'S4FDE', 'S4G3',
             'S4GO', 'S4K3', 'S4K3W', 'S4K3WQ', 'S4L3', 'S4LP', 'S4RM3', 'S5', 'S5B3E', 'S5FDE', 'S5G3', 'S5K3', 'S5K3W',
             'S5K3WQ', 'S5L3', 'S5LP', 'S5RM3', 'T', 'TB3E', 'TFDE', 'TG3', 'TK3', 'TK3W', 'TK3WQ', 'TL3', 'TLP', 'TRM3']


def run(rep):
    n = shapes(rep)
    nf = frames(rep)
    rep.cov['frame_cases'] = nf
    n += nf
    rep.cov['evaluations'] = n
    rep.cov['distinct_nontrivial'] = n
    rep.cov['rule'] = ('elements of the TLA+ set GenCases: logic x (operator|quantifier|modal) x negated x designation mark '
                       'x number of constants / accessible worlds already present (0..2); all distinct; every case is a compound node')
    rep.cov['exhaustive'] = True
    rep.assumptions += ['Semantics.tla / Logics.tla transcription (cross-checked by C07 and C08)',
                        'new worlds/constants are interpreted by duplicates of existing ones or one fresh item with a free valuation']
