"""C14 -- lexical items have value semantics.

(1) comparison / hash matrices over ~110 items of all nine lexical types and
over arguments, laws checked by TLC (C14_Order.tla) on all pairs and triples;
(2) every item of the TLC-generated sentence space rebuilt from ident / spec,
copied, deep-copied, pickled; (3) TLC model-checks the cache model LexCache.tla
and every construction history of depth d over a 7-item universe (incl. identity
and existence sentences) is replayed under ITEM_CACHE_SIZE = 1, 2, 3.
"""
import itertools
import json

import common as C
from props import c15

VAL_CFG = "SPECIFICATION Spec\nINVARIANT Publish\nPOSTCONDITION Post\nCHECK_DEADLOCK FALSE\n"
MC_CFG = ("SPECIFICATION Spec\nCONSTANTS NI = %d\nK = %d\nINVARIANT Transparent\nINVARIANT IndexCorrect\n"
          "INVARIANT Bounded\nINVARIANT NoDanglingKeys\nCHECK_DEADLOCK FALSE\n")
OPS = ['spec', 'ident', 'sident', 'pickle']


def run(rep):
    rep.group_keys = ('rec', 'clause')
    d = C.subdir('c14')
    thorough = rep.tier == 'thorough'
    for ni, k in ((3, 1), (4, 2), (4, 3)) + (((5, 2), (5, 3)) if thorough else ()):
        mc = C.tlc('LexCache', MC_CFG % (ni, k), workers=4, tag=f'c14mc{ni}{k}', timeout=900)
        if mc.violated:
            rep.violation({'kind': 'design', 'rec': 'model', 'clause': 'LexCacheInvariant'}, {'tlc': mc.out[-2000:]})
        rep.add_tlc(mc)
    sents = c15.generate(rep, d, 2, 3 if thorough else 15, tag='c14gen')
    files = [d / 'matrix.ndjson']
    jobs = [('d_lexorder.py', ['matrix', sents, d / 'matrix.ndjson', 130 if thorough else 90, rep.seed], {'hooks': False})]
    ns = 8
    for k in range(ns):
        files.append(d / f'rebuild{k}.ndjson')
        jobs.append(('d_lexorder.py', ['rebuild', sents, d / f'rebuild{k}.ndjson', k, ns], {'hooks': False}))
    # construction histories under small caches
    depth = 4 if thorough else 3
    alphabet = [(op, k) for op in OPS for k in range(7)]
    hf = d / 'hist.ndjson'
    with open(hf, 'w') as f:
        for n, seq in enumerate(itertools.product(alphabet, repeat=depth)):
            if not thorough and n % 3:
                continue
            f.write(json.dumps({'id': n, 'ops': seq}) + '\n')
    for size in (1, 2, 3):
        files.append(d / f'hist-c{size}.ndjson')
        jobs.append(('d_lexorder.py', ['history', hf, d / f'hist-c{size}.ndjson'], {'hooks': False, 'extra': {'ITEM_CACHE_SIZE': size}}))
    C.run_drivers_parallel(jobs)
    # pickles written by one interpreter process and read by another (different string-hash seeds)
    C.run_driver('d_lexorder.py', ['xdump', sents, d / 'items.pkl'], hooks=False, extra={'PYTHONHASHSEED': '11'})
    C.run_driver('d_lexorder.py', ['xload', sents, d / 'items.pkl', d / 'xpickle.ndjson'], hooks=False, extra={'PYTHONHASHSEED': '22'})
    files.append(d / 'xpickle.ndjson')
    res = C.tlc_parallel([dict(module='C14_Order', cfg=VAL_CFG, env={'CASES': f}, tag=f'c14val{k}', timeout=3400, xmx='4g')
                          for k, f in enumerate(files)])
    total = 0
    for r, f in zip(res, files):
        if r.json is None:
            raise C.MachineryError('C14: validator wrote no result\n' + r.out[-1500:])
        total += r.json['n']
        rep.add_tlc(r, traces=r.json['n'])
        for x in r.json['bad']:
            det = x['detail']
            sysp = int('-1, 0, 2' in det or '-2, 0, 1' in det)
            rep.violation({'kind': 'lex', 'rec': x['rec'], 'clause': x['clause'], 'mentions_system_predicate': sysp,
                           'cache': f.name if x['rec'] == 'history' else ''}, x)
    rep.cov['evaluations'] = total
    distinct = set()
    for f in files:
        for line in open(f):
            c = json.loads(line)
            if c['rec'] == 'rebuild':
                distinct.add(('rebuild', json.dumps(c['item'])))
            elif c['rec'] == 'xpickle':
                distinct.add(('xpickle', json.dumps(c['item'])))
            elif c['rec'] == 'history':
                distinct.add(('history', f.name, c['id']))
            else:
                distinct.update(('matrix', c['id'], json.dumps(x)) for x in c['items'])
    rep.cov['distinct_nontrivial'] = len(distinct)
    rep.cov['rule'] = ('records = 2 comparison matrices (all pairs and triples of ~90 items / ~14 arguments) + one rebuild record per '
                       'sub-item of the TLC-generated sentences + one record per construction history (depth %d over 4 ops x 7 items) '
                       'under cache sizes 1,2,3; distinct = distinct items rebuilt + distinct (history, cache size) + distinct matrix items' % depth)
    with open(d / 'rebuild0.ndjson') as f:
        rep.sample(json.loads(f.readline()))
