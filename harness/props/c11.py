"""C11 -- declared logic extensions preserve validity.

Pipeline A: the declared relation (Meta.extension_of) is read from the package at
run time; each argument of a propositional / modal / first-order corpus is proved
in ALL 57 logics; TLC (C11_Ext.tla) checks every declared (thorough: transitively
closed) pair on every argument.
"""
import json
import random

import common as C
import corpus
import proofs as P

VAL_CFG = "SPECIFICATION Spec\nINVARIANT Publish\nPOSTCONDITION Post\nCHECK_DEADLOCK FALSE\n"


def is_prop(arg):
    def ok(s):
        return s[0] == 'A' or (s[0] == 'O' and s[1] not in P.MODAL_OPS and all(ok(x) for x in s[2]))
    return all(ok(s) for s in arg['prems'] + [arg['conc']])


def run(rep):
    rep.group_keys = ('clause', 'stronger', 'weaker', 'root')
    d = C.subdir('c11')
    thorough = rep.tier == 'thorough'
    C.run_driver('d_meta.py', [d / 'meta.json'], hooks=False)
    decl = json.load(open(d / 'meta.json'))
    (d / 'pairs.json').write_text(json.dumps({'pairs': decl['pairs'], 'transitive': int(thorough)}))
    rng = random.Random(f'{rep.seed}/c11')
    args = [(f'schema:{k}', a) for k, a in corpus.schemas().items()]
    # one-rule arguments: a rule that is wrong in ONE logic of a declared pair shows up as a broken inclusion
    args += [(f'sys:{k}', a) for k, a in sorted(corpus.systematic(prop_only=False).items())]
    nrand = 400 if thorough else 60
    for n in range(nrand):
        kind = ['prop', 'prop', 'prop', 'modal', 'modal', 'fo'][n % 6]
        args.append((f'rand:{kind}:{n}', corpus.rand_argument(rng, kind, True)))
    jobs = []
    for n, (label, a) in enumerate(args):
        for L in P.ALL_LOGICS:
            jobs.append({'id': f'{n}/{L}', 'logic': L, 'arg': a, 'g': 1, 'r': 1, 'mode': 'build', 'order': 0,
                         'level': 'verdict', 'max_steps': 150, 'timeout_s': 20})
    outs = P.run_jobs(jobs, 'c11')
    runs = {}
    argstr = {}
    for r in P.read_records(outs):
        n = int(r['id'].split('/')[0])
        argstr[n] = r['argstr']
        runs.setdefault(n, []).append({'logic': r['logic'], 'outcome': 'limit' if r['outcome'] == 'raise' else r['outcome'],
                                       'rules': r.get('rules', [])})
    cases = [{'id': n, 'argstr': argstr[n], 'label': args[n][0], 'propositional': int(is_prop(args[n][1])), 'runs': runs[n]}
             for n in sorted(runs)]
    calls = []
    for k, sh in enumerate(C.shard(cases, C.NCPU)):
        cf = d / f'cases{k}.ndjson'
        C.write_ndjson(cf, sh)
        calls.append(dict(module='C11_Ext', cfg=VAL_CFG, env={'CASES': cf, 'PAIRS': d / 'pairs.json'}, tag=f'c11val{k}', timeout=1800))
    total = 0
    for res in C.tlc_parallel(calls):
        if res.json is None:
            raise C.MachineryError('C11: validator wrote no result\n' + res.out[-1500:])
        total += res.json['n']
        rep.add_tlc(res, traces=res.json['n'])
        for f in res.json['bad']:
            root = P.root_cause(f['weaker'], f['rules_weaker']) or P.root_cause(f['stronger'], f['rules_stronger'])
            rep.violation({'kind': 'extension', 'clause': f['clause'], 'stronger': f['stronger'], 'weaker': f['weaker'],
                           'root': root, 'argstr': f['argstr']}, f)
    if total != len(cases):
        raise C.MachineryError('C11: TLC validated a different number of cases')
    rep.cov['evaluations'] = len(cases) * len(decl['pairs'])
    rep.cov['proofs'] = len(jobs)
    rep.cov['declared_pairs'] = len(decl['pairs'])
    rep.cov['arguments'] = len(cases)
    rep.cov['distinct_nontrivial'] = len(cases) * len(decl['pairs'])
    rep.cov['rule'] = ('every declared (stronger, weaker) pair x every argument of the corpus (schemas + seeded random prop/modal/FO), '
                       'each argument proved in all 57 logics; evaluations = distinct = (pair, argument) checks; thorough adds the transitive closure')
    rep.sample({'pairs': decl['pairs'][:6], 'argument': cases[3]['argstr']})
