"""C01 -- a 'valid' verdict is sound in every logic.

Pipeline A: the shared corpus (schemas + seeded random propositional / modal /
first-order arguments) is proved in all 57 logics under rotating option
combinations and order seeds; for every argument some run reports valid, TLC
(C01_Sound.tla + Models.tla) searches the spec's semantics for a counter-model
within bounds chosen under a model budget.  Violations carry a root cause
(proofs.root_cause) so that known findings match on the defect, not the property.
Pipeline A': full traces of corpus proofs are validated step by step against the
operational model built from the extracted rule table (TraceMC.tla): every real
step must be a table step on the branch as it was.
"""
import json

import common as C
import proofs as P
import tracemc

VAL_CFG = "SPECIFICATION Spec\nINVARIANT Publish\nPOSTCONDITION Post\nCHECK_DEADLOCK FALSE\n"


def run(rep):
    rep.group_keys = ('clause', 'logic_family', 'root')
    d = C.subdir('c01')
    thorough = rep.tier == 'thorough'
    budget = 900_000 if thorough else 150_000      # TLC refuses to build sets of more than 1 000 000 elements
    jobs = P.corpus_jobs(rep.seed, 150 if thorough else 24, 'c01', 'verdict', orders=8 if thorough else 2, max_steps=200,
                         systematic=True, default_too=True)
    outs = P.run_jobs(jobs, 'c01')
    by_arg = {}
    nproofs = 0
    outcomes = {}
    for r in P.read_records(outs):
        nproofs += 1
        outcomes[r['outcome']] = outcomes.get(r['outcome'], 0) + 1
        if r['outcome'] != 'valid':
            continue
        key = (r['logic'], r['argstr'])
        e = by_arg.setdefault(key, {'logic': r['logic'], 'argstr': r['argstr'], 'arg': r['arg'], 'rules': set(), 'witness': []})
        e['rules'].update(r.get('rules', []))
        e['witness'] += r.get('witness', [])
    cases = []
    unsearched = 0
    for (logic, argstr), e in sorted(by_arg.items()):
        bounds = P.search_bounds(logic, e['arg'], budget)
        if not bounds:
            unsearched += 1
        for nw, extra in bounds:
            cases.append({'id': f'{logic}/{argstr}/w{nw}e{extra}', 'logic': logic, 'argstr': argstr, 'arg': e['arg'],
                          'nw': nw, 'extra': extra, 'rules': sorted(e['rules']),
                          'witness': P.root_cause(logic, e['rules'], e['witness'])})
    shards = C.shard(cases, C.NCPU)
    calls = []
    for k, sh in enumerate(shards):
        f = d / f'cases{k}.ndjson'
        C.write_ndjson(f, sh)
        calls.append(dict(module='C01_Sound', cfg=VAL_CFG, env={'CASES': f}, tag=f'c01val{k}', timeout=3400, xmx='3g'))
    total = 0
    for res in C.tlc_parallel(calls):
        if res.json is None:
            raise C.MachineryError('C01: validator wrote no result\n' + res.out[-1500:])
        total += res.json['n']
        rep.add_tlc(res, traces=res.json['n'])
        for f in res.json['bad']:
            rep.violation({'kind': 'unsound_valid', 'clause': f['clause'], 'logic_family': P.family(f['logic']),
                           'root': f['witness'], 'logic': f['logic'], 'argstr': f['argstr']}, f)
    if total != len(cases):
        raise C.MachineryError('C01: TLC validated a different number of cases')
    # pipeline A': every step of recorded proofs is a step of the operational rule-table model (TraceMC.tla).  The rules
    # of the table are validated sound one by one (C04); that the prover applies them AS TABLED in context -- fresh
    # witnesses, instances only for present constants / accessible worlds, frame pairs only where the class calls for
    # them, nodes at the right world -- is the other half of the soundness induction.
    tjobs = P.corpus_jobs(rep.seed + 1, 40 if thorough else 6, 'c01t', 'full', orders=4 if thorough else 2, max_steps=120,
                          systematic=thorough)
    tracemc.validate(rep, P.read_records(P.run_jobs(tjobs, 'c01t')), d, 'c01')
    rep.cov['evaluations'] = nproofs + rep.cov['trace_model_steps']
    rep.cov['proofs'] = nproofs
    rep.cov['outcomes'] = outcomes
    rep.cov['valid_arguments_checked'] = len(by_arg) - unsearched
    rep.cov['valid_arguments_beyond_budget'] = unsearched
    rep.cov['distinct_nontrivial'] = len(by_arg)
    rep.cov['rule'] = ('proofs of the schema+random corpus in all 57 logics; a case = (logic, argument) some run reported valid, '
                       'searched for counter-models over (worlds, extra constants) bounds; distinct by (logic, argument); '
                       'non-trivial = every such case (the prover closed every branch)')
    rep.cov['model_budget_per_case'] = budget
    if cases:
        rep.sample({k: cases[len(cases) // 2][k] for k in ('id', 'nw', 'extra', 'rules')})
    rep.assumptions += ['bounded counter-model search: an unsound verdict whose smallest counter-model exceeds the bounds is missed',
                        'Semantics.tla / Logics.tla transcription (C07, C04, C08 cross-checks)']
