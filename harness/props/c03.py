"""C03 -- propositional arguments are decided exactly, without limits.

Pipeline B+A: TLC (C03_Prop.tla GenSpec) enumerates the argument space; every
argument is proved by the real prover in every logic (and option combinations);
TLC decides each recorded outcome against truth-table validity.  Proofs run
WITHOUT a step cap (termination is part of the property); a per-proof watchdog
turns non-termination into a recorded 'raise'.
"""
import json
from collections import defaultdict

import common as C
import proofs as P
import tableaumc

GEN_CFG = "SPECIFICATION GenSpec\nPOSTCONDITION GenPost\nCHECK_DEADLOCK FALSE\n"
VAL_CFG = "SPECIFICATION Spec\nINVARIANT Publish\nPOSTCONDITION Post\nCHECK_DEADLOCK FALSE\n"

OPTS = [(1, 1), (1, 0), (0, 1), (0, 0)]
QUICK_MODAL = ['D', 'KFDE', 'TK3W', 'S4B3E', 'S5LP', 'S4GO', 'TL3', 'S5G3']


MC_LOGICS = ['CPL', 'FDE', 'K3', 'LP', 'L3', 'RM3', 'K3W', 'B3E', 'G3', 'MH', 'NH', 'GO', 'P3']


def run(rep):
    rep.group_keys = ('clause', 'logic_family', 'root')
    d = C.subdir('c03')
    # pipeline C: all schedules of the calculus with the rule table extracted from the code
    tableaumc.run(rep, MC_LOGICS, d, 'c03', full=rep.tier == 'thorough')
    rep.cov['mc_logics'] = len(MC_LOGICS)
    rep.cov['mc_states'] = rep.cov['states']
    par = {'nc0': 2, 'nc1': 1, 'np1': 1}
    (d / 'par.json').write_text(json.dumps(par))
    r = C.tlc('C03_Prop', GEN_CFG, env={'CASES': '/dev/null', 'PAR': d / 'par.json'}, out_name='cases.ndjson',
              tag='c03gen', timeout=600)
    rep.add_tlc(r)
    cases = [json.loads(l) for l in open(r.out_path)]
    ngen = len(cases)
    # systematic one-rule arguments (three letters, up to three premises): harness-generated inputs, TLC still decides
    import corpus
    for k, (name, a) in enumerate(sorted(corpus.systematic(prop_only=True).items())):
        cases.append({'id': 100000 + k, 'arg': a, 'systematic': name})
    thorough = rep.tier == 'thorough'
    jobs = []
    for c in cases:
        haspre = bool(c['arg']['prems'])
        for li, L in enumerate(P.ALL_LOGICS):
            if not thorough and L not in P.NONMODAL and (haspre or L not in QUICK_MODAL) and c['id'] < 100000:
                continue
            if not thorough and c['id'] >= 100000 and L not in P.NONMODAL and L not in QUICK_MODAL:
                continue
            if thorough:
                combos = OPTS
            else:
                # quick: default options everywhere + one rotating non-default combination
                combos = [OPTS[(c['id'] + li) % 4]] if (c['id'] + li) % 3 == 0 else [OPTS[0]]
            for g, rk in combos:
                jobs.append({'id': f"{c['id']}/{L}/{g}{rk}", 'case': c['id'], 'logic': L, 'arg': c['arg'],
                             'g': g, 'r': rk, 'mode': 'build' if (c['id'] + li) % 2 else 'step',
                             'level': 'verdict', 'max_steps': -1, 'timeout_s': 30,
                             'order': (c['id'] + li) % (4 if thorough else 2)})
    outs = P.run_jobs(jobs, 'c03')
    recs0 = list(P.read_records(outs))
    # a proof cut by the harness watchdog under machine load is re-run alone with a generous limit before it is judged
    slow = {r['id'] for r in recs0 if r['raised'] == 'Watchdog'}
    if slow:
        # (at most 96 of them, six processes: a change that makes proofs loop must not make the check run for hours;
        # what is not re-run stays a recorded 'raise')
        again = [dict(j, timeout_s=150) for j in jobs if j['id'] in slow][:96]
        redo = {r['id']: r for r in P.read_records(P.run_jobs(again, 'c03retry', nproc=6, chunk=8))}
        recs0 = [redo.get(r['id'], r) for r in recs0]
        rep.cov['watchdog_retries'] = len(slow)
    runs = defaultdict(list)
    argstr = {}
    for rec in recs0:
        cid = int(rec['id'].split('/')[0])
        argstr[cid] = rec['argstr']
        runs[cid].append({'logic': rec['logic'], 'g': rec['g'], 'r': rec['r'], 'mode': rec['mode'],
                          'outcome': rec['outcome'], 'premature': rec.get('premature', 0),
                          'quit_flags': rec.get('quit_flags', 0), 'rules': rec.get('rules', []),
                          'raised': rec['raised']})
    nruns = sum(len(v) for v in runs.values())
    if nruns != len(jobs):
        raise C.MachineryError(f'C03: {len(jobs)} jobs, {nruns} records')
    recs = [{'id': c['id'], 'arg': c['arg'], 'argstr': argstr[c['id']], 'runs': runs[c['id']]} for c in cases]
    shards = C.shard(recs, C.NCPU)
    calls = []
    for k, sh in enumerate(shards):
        f = d / f'val{k}.ndjson'
        C.write_ndjson(f, sh)
        calls.append(dict(module='C03_Prop', cfg=VAL_CFG, env={'CASES': f, 'PAR': d / 'par.json'}, tag=f'c03val{k}', timeout=1800))
    total = 0
    for res in C.tlc_parallel(calls):
        if res.json is None:
            raise C.MachineryError('C03: validator wrote no result\n' + res.out[-1500:])
        total += res.json['n']
        rep.add_tlc(res, traces=0)
        for f in res.json['bad']:
            rep.violation({'kind': 'prop_mismatch', 'clause': f['clause'], 'logic_family': P.family(f['logic']),
                           'root': P.root_cause(f['logic'], f['rules']), 'logic': f['logic'], 'argstr': f['argstr']}, f)
    if total != len(recs):
        raise C.MachineryError('C03: TLC validated a different number of cases')
    rep.cov['traces_validated_against_impl'] = nruns
    rep.cov['evaluations'] = nruns
    rep.cov['distinct_nontrivial'] = len({(j['case'], j['logic']) for j in jobs if j['arg']['conc'][0] == 'O'})
    rep.cov['rule'] = ('arguments = elements of GenCases in C03_Prop.tla (every conclusion with <=2 connectives over 2 letters; '
                       'one-premise arguments with <=1 connective each side), proved in all 57 logics (quick: one-premise arguments only in the 15 non-modal logics, no-premise ones also in 8 modal representatives); distinct = (argument, logic) pairs; '
                       'non-trivial = conclusion is compound')
    rep.cov['exhaustive'] = True
    rep.cov['arguments'] = len(cases)
    rep.cov['generated_arguments'] = ngen
    rep.sample(recs[40]['argstr'])
    rep.sample({'argstr': recs[900]['argstr'], 'runs': recs[900]['runs'][:3]})
    rep.cov['exhaustive'] = True
