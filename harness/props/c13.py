"""C13 -- parsers accept only closed well-formed sentences and fail only with ParseError.

Pipeline B+A: TLC (C13_Parser.tla) generates every string up to length L over a
class-representative alphabet (every token class of both notations + a foreign
character) and grammar mutants of valid strings come from the C12 generator; each
is parsed by a long-lived parser and by a fresh parser with the same predicate
store; TLC validates every non-trivial outcome as a history (memo variable).
"""
import json
import random

import common as C

GEN_CFG = "SPECIFICATION GenSpec\nPOSTCONDITION GenPost\nCHECK_DEADLOCK FALSE\n"
VAL_CFG = "SPECIFICATION Spec\nINVARIANT Publish\nPOSTCONDITION Post\nCHECK_DEADLOCK FALSE\n"
# one or two symbols per token class of either notation, plus a foreign character
ALPHABET = ['a', 'A', 'm', 'x', 'y', 'F', 'G', 'I', '=', 'N', '~', 'K', '&', 'V', 'L', 'S', 'X', '(', ')', '1', '0', ' ', '#']


def mutants(rng, valid, n):
    out = []
    pool = ALPHABET + ['b', 'n', 'z', 'H', 'J', '!', 'M', 'P', 'C', '>', '9']
    for k in range(n):
        s = rng.choice(valid)
        if not s:
            continue
        r = rng.random()
        i = rng.randrange(len(s))
        if r < 0.3:
            t = s[:i] + s[i + 1:]
        elif r < 0.6:
            t = s[:i] + rng.choice(pool) + s[i:]
        elif r < 0.8:
            t = s[:i] + rng.choice(pool) + s[i + 1:]
        else:
            j = rng.randrange(len(s))
            t = s[:min(i, j)] + s[max(i, j):] + s[min(i, j):max(i, j)]
        out.append(t)
    return out


def run(rep):
    rep.group_keys = ('clause', 'notation', 'out')
    d = C.subdir('c13')
    thorough = rep.tier == 'thorough'
    L = 4 if thorough else 3
    alpha = ALPHABET if thorough else ALPHABET
    (d / 'par.json').write_text(json.dumps({'alphabet': alpha, 'len': L}))
    g = C.tlc('C13_Parser', GEN_CFG, env={'CASES': '/dev/null', 'PAR': d / 'par.json'}, out_name='strings.ndjson', tag='c13gen',
              timeout=3000, xmx='8g')
    rep.add_tlc(g)
    strs = [json.loads(l) for l in open(g.out_path)]
    nexh = len(strs)
    # grammar mutants of valid strings (valid strings from the C12 generator, if available in this run's scratch; else synthetic)
    rng = random.Random(f'{rep.seed}/c13')
    valid = ['KaNb', 'VxFx', 'SxKFxGxm', 'Imn', 'NJm', 'MLa', 'UaBab', 'Fm12', '(A & B)', 'LxFx', 'XxXy(Fx V Gxy)', 'a = b',
             '~a = b', 'PNA', '(A $ (B % C))', '!a', 'F1a', 'aGb', 'A1 > ~B12', 'Lx(Fx > XyGxy)',
             'KVxFxVxGx', 'KVxFxSxGx', 'LxFx & LxGx', '(XxFx V LxGx)', 'UVxFxVxFx']
    # targeted near-misses of the quantifier rules (vacuous / re-bound / unbound variables next to a legal binder)
    targeted = ['KVxFxVxFm', 'KVxFmVxFx', 'LxFx & LxFa', 'LxFa & LxFx', 'VxVxFx', 'LxLxFx', 'KVxFxFx', 'LxFx & Fx', 'VxSyFx',
                'KVxFxVyFx', 'AVxFxSxGm', 'KSxFxVxFm', 'XxFx V LxGa', 'VxKFxVxGx', 'Lx(Fx & LxGx)',
                # blocks of adjacent quantifiers followed by a sibling that uses one of their variables (scope must END)
                'KVxVyFxyGx', 'KVxVyFxyGy', 'KVxSyFxyFx', 'AVxVyVzFxGy', 'KVxVyFxyFm', '(LxLyFxy & Gx)', '(LxLyFxy & Gy)',
                'XxXyx=y V Fx', 'LxXyFxy & Fx', '(LxLyLzFx V Gz)', 'KSxSyFxyVxFx', 'KVxVyFxyVyGy']
    for k, t in enumerate(targeted + valid):
        strs.append({'id': 20_000_000 + k, 'str': t})
    # stress strings: very long tokens and very deep nesting (a parser may refuse them, but only with its parse error)
    stress = ['N' * 150 + 'a', 'N' * 1200 + 'a', '~' * 600 + 'A', 'K' * 100 + 'a' * 101, '(' * 200 + 'A' + ')' * 200,
              'a' + '1' * 4301, 'a' + '1' * 5000, 'a' + '0' * 5000, 'Fm' + '1' * 4301, 'A' + '1' * 5000, 'F' + '1' * 5000 + 'a',
              'Vx' + 'N' * 300 + 'Fx', 'Lx' + '~' * 700 + 'Fx', ' ' * 3000 + 'a', 'a' + ' ' * 3000]
    for k, t in enumerate(stress):
        strs.append({'id': 30_000_000 + k, 'str': t})
    for k, m in enumerate(mutants(rng, valid, 20000 if thorough else 3000)):
        strs.append({'id': 10_000_000 + k, 'str': m})
    sf = d / 'all.ndjson'
    C.write_ndjson(sf, strs)
    ns = C.NCPU
    C.run_drivers_parallel([('d_parser.py', [sf, d / f'obs{k}.ndjson', d / f'agg{k}.json', k, ns], {'hooks': False}) for k in range(ns)])
    res = C.tlc_parallel([dict(module='C13_Parser', cfg=VAL_CFG, env={'CASES': d / f'obs{k}.ndjson', 'PAR': d / 'par.json'},
                               tag=f'c13val{k}', timeout=3400, xmx='4g') for k in range(ns)])
    total = 0
    for r in res:
        if r.json is None:
            raise C.MachineryError('C13: validator wrote no result\n' + r.out[-1500:])
        total += r.json['n']
        rep.add_tlc(r, traces=r.json['n'])
        for f in r.json['bad']:
            rep.violation({'kind': 'parser', 'clause': f['clause'], 'notation': f['notation'], 'out': f['out'], 'auto': f['auto']}, f)
    agg = {'aggregated_parse_errors': 0, 'parsed_ok': 0, 'total': 0}
    for k in range(ns):
        a = json.load(open(d / f'agg{k}.json'))
        for x in agg:
            agg[x] += a[x]
    rep.cov.update(agg)
    rep.cov['evaluations'] = agg['total']
    rep.cov['individually_validated'] = total
    rep.cov['distinct_nontrivial'] = total
    rep.cov['exhaustive_strings'] = nexh
    rep.cov['rule'] = (f'every string of length <= {L} over a {len(alpha)}-symbol class-representative alphabet (TLC-generated) + seeded '
                       'grammar mutants of valid strings, each parsed in 4 parser configurations (2 notations x auto-predicates / fixed store); '
                       'plain ParseErrors are counted, every other outcome is validated individually; non-trivial = individually validated')
    rep.cov['exhaustive'] = True
    with open(d / 'obs0.ndjson') as f:
        rep.sample(json.loads(f.readline()))
