"""C02 -- an 'invalid' verdict comes with a genuine countermodel.

Pipeline C: TLC explores all schedules of the modal (TableauModalMC.tla) and of the first-order calculus
(TableauFOMC.tla) with the rule tables extracted from the real rule objects: completed => saturated, the
structure read off an open branch satisfies it, the terminal verdict is the one the real prover reports.
Pipeline A: the shared corpus is proved with is_build_models=True in all 57
logics; for every completed invalid tableau the structures built for its open
branches are exported through public attributes and TLC (C02_Models.tla)
evaluates every branch node in them with the spec's own evaluator.
"""
import json

import common as C
import proofs as P
import tableaumc

VAL_CFG = "SPECIFICATION Spec\nINVARIANT Publish\nPOSTCONDITION Post\nCHECK_DEADLOCK FALSE\n"

UNIVERSAL_SHAPES = ('Necessity:', 'Possibility:neg', 'Universal:', 'Existential:neg',
                    'Possibility::-', 'Necessity:neg:-', 'Existential::-', 'Universal:neg:-')


def record_cases(rep, tag, per_logic, orders, extra_jobs=()):
    jobs = P.corpus_jobs(rep.seed, per_logic, tag, 'final', orders=orders, models=1, max_steps=200, systematic=(tag == 'c02'), default_too=True)
    jobs += list(extra_jobs)
    outs = P.run_jobs(jobs, tag)
    cases = []
    stats = {'proofs': 0, 'invalid': 0, 'models': 0}
    for r in P.read_records(outs):
        stats['proofs'] += 1
        if r['outcome'] == 'raise' and r['raised'] != 'Watchdog':
            # the proof itself is search-independent (C09); a raise here comes from building the models of an
            # invalid tableau: no countermodel was delivered
            cases.append({'id': r['id'], 'logic': r['logic'], 'argstr': r['argstr'], 'arg': r['arg'], 'rules': r.get('rules', []),
                          'models': [], 'nmodels_expected': -1, 'raised': r['raised'].split(':')[0],
                          'open_nodes': r.get('open_nodes', [])})
            continue
        if r['outcome'] != 'invalid' or 'models' not in r:
            continue
        stats['invalid'] += 1
        stats['models'] += len(r['models'])
        cases.append({'id': r['id'] + f"/o{r.get('order', 0)}", 'logic': r['logic'], 'argstr': r['argstr'], 'arg': r['arg'],
                      'rules': r.get('rules', []), 'models': r['models'],
                      'nmodels_expected': r['final']['state']['nopen'], 'raised': '', 'open_nodes': []})
    return cases, stats


def saturation_root(shape):
    "universal-type shapes are the ones a missing instance leaves unsatisfied"
    s = shape
    kinds = {'Necessity::+', 'Necessity::', 'Possibility:neg:+', 'Possibility:neg:', 'Universal::+', 'Universal::',
             'Existential:neg:+', 'Existential:neg:', 'Possibility::-', 'Necessity:neg:-', 'Existential::-', 'Universal:neg:-'}
    return 'universal-instance-missing' if s in kinds else 'value'


def validate(rep, cases, d, tag):
    shards = C.shard(cases, C.NCPU)
    calls = []
    for k, sh in enumerate(shards):
        f = d / f'{tag}{k}.ndjson'
        C.write_ndjson(f, sh)
        calls.append(dict(module='C02_Models', cfg=VAL_CFG, env={'CASES': f}, tag=f'{tag}val{k}', timeout=3400, xmx='3g'))
    total = 0
    for res in C.tlc_parallel(calls):
        if res.json is None:
            raise C.MachineryError('C02: validator wrote no result\n' + res.out[-1500:])
        total += res.json['n']
        rep.add_tlc(res, traces=res.json['n'])
        for f in res.json['bad']:
            rep.violation({'kind': 'countermodel', 'clause': f['clause'], 'logic_family': P.family(f['logic']),
                           'shape': f['shape'], 'root': f['gap'], 'argument_mixes_N_and_B': int(bool(f['mixes'])),
                           'logic': f['logic'], 'argstr': f['argstr']}, f)
    if total != len(cases):
        raise C.MachineryError('C02: TLC validated a different number of cases')


def run(rep):
    rep.group_keys = ('clause', 'logic_family', 'root', 'argument_mixes_N_and_B')
    d = C.subdir('c02')
    thorough = rep.tier == 'thorough'
    # pipeline C: all schedules of the modal calculus (rule table extracted from the code): completed => saturated,
    # and the structure read off every open branch satisfies the branch
    mlogics = ['K', 'D', 'T', 'S4', 'S5', 'KFDE', 'TK3', 'S4LP'] + (['KK3WQ', 'S5G3', 'TL3', 'S4GO', 'KB3E', 'S5RM3'] if thorough else [])
    tableaumc.run_modal(rep, mlogics, d, 'c02', maxw=3, full=thorough)
    # ... and of the first-order calculus (fresh witnesses, universal instantiation, the constant limit), whose
    # terminal verdict must also be the one the real prover reports
    flogics = tableaumc.FO_LOGICS if thorough else ['CFOL', 'FDE', 'K3', 'LP', 'K3W', 'K3WQ', 'GO', 'MH', 'NH']
    tableaumc.run_fo(rep, flogics, d, 'c02', full=thorough)
    cases, stats = record_cases(rep, 'c02', 150 if thorough else 24, 8 if thorough else 2)
    validate(rep, cases, d, 'c02')
    rep.cov.update(stats)
    rep.cov['evaluations'] = stats['models']
    rep.cov['distinct_nontrivial'] = len({(c['logic'], c['argstr']) for c in cases})
    rep.cov['rule'] = ('one case per completed invalid proof of the schema+random corpus (all 57 logics, rotating options and order seeds); '
                       'evaluations = open-branch models evaluated node by node; distinct by (logic, argument)')
    if cases:
        c = cases[len(cases) // 3]
        rep.sample({'id': c['id'], 'model': {k: c['models'][0][k] for k in ('W', 'R', 'C', 'val')}})
