"""C08 -- model evaluation is compositional and frame-correct.

Pipeline A: models are assembled through the public model API in every order of
a call set (<=4 calls: all permutations) for all 57 logics, finished, and
exported; TLC (C08_Eval.tla) re-evaluates every requested sentence at every
world with the spec's evaluator, recomputes the frame closure and the classical
identity/existence conditions, and checks that all orders agree.
"""
import json
import random

import common as C
import modelgen as G
import proofs as P

VAL_CFG = "SPECIFICATION Spec\nINVARIANT Publish\nPOSTCONDITION Post\nCHECK_DEADLOCK FALSE\n"
GLUTTY = {'LP', 'RM3', 'NH'}


def build_cases(seed, nsets, cap, tag):
    cases = []
    for L in P.ALL_LOGICS:
        modal, quant = P.LOGIC_META[L]
        rng = random.Random(f'{seed}/{tag}/{L}')
        base = L
        for p in ('S4', 'S5', 'K', 'T'):
            if L.startswith(p) and L != p and L not in ('K3', 'K3W', 'K3WQ'):
                base = L[len(p):]
                break
        vals = G.values_of(L, P.NVALS[L], base in GLUTTY)
        classical = P.NVALS[L] == 2
        for k, cs in enumerate(G.call_sets(L, modal, quant, classical, vals, rng, nsets)):
            consts = sorted({p[1] for c in cs if c['op'] == 'pred' for p in c['s'][2]})
            cases.append({'id': f'{L}/{k}', 'logic': L, 'calls': cs, 'perms': G.perms_of(len(cs), rng, cap),
                          'sents': G.eval_sentences(modal, quant, consts, rng, 12)})
    return cases


def record(cases, d, tag):
    cf = d / f'{tag}-cases.ndjson'
    C.write_ndjson(cf, cases)
    ns = C.NCPU
    C.run_drivers_parallel([('d_models.py', [cf, d / f'{tag}-obs{k}.ndjson', k, ns], {'hooks': False}) for k in range(ns)])
    return [d / f'{tag}-obs{k}.ndjson' for k in range(ns)]


def sig_of(f):
    det = f['detail']
    sig = {'kind': 'model', 'clause': f['clause'], 'logic_family': P.family(f['logic']), 'logic': f['logic']}
    if f['clause'] == 'EvalAgrees':
        ops = sorted(det['operands'])
        sig.update(top=det['top'], operands=ops, got=det['got'], want=det['want'],
                   mixes_N_and_B=int(bool(det['mixes'])))
    return sig


def run(rep):
    rep.group_keys = ('clause', 'logic_family', 'top', 'mixes_N_and_B')
    d = C.subdir('c08')
    thorough = rep.tier == 'thorough'
    cases = build_cases(rep.seed, 40 if thorough else 8, 24 if thorough else 6, 'c08')
    files = record(cases, d, 'c08')
    res = C.tlc_parallel([dict(module='C08_Eval', cfg=VAL_CFG, env={'CASES': f}, tag=f'c08val{k}', timeout=3400, xmx='3g')
                          for k, f in enumerate(files)])
    total = 0
    for r in res:
        if r.json is None:
            raise C.MachineryError('C08: validator wrote no result\n' + r.out[-1500:])
        total += r.json['n']
        rep.add_tlc(r, traces=r.json['n'])
        for f in r.json['bad']:
            rep.violation(sig_of(f), f)
    if total != len(cases):
        raise C.MachineryError('C08: TLC validated a different number of cases')
    nruns = sum(len(c['perms']) for c in cases)
    nevals = 0
    for f in files:
        for line in open(f):
            c = json.loads(line)
            nevals += sum(len(r['values']) for r in c['runs'])
    rep.cov['evaluations'] = nevals
    rep.cov['models_built'] = nruns
    rep.cov['distinct_nontrivial'] = len(cases)
    rep.cov['rule'] = ('a case = one set of 2..5 model-API calls of one logic (targeted identity/access sets + seeded random), executed in '
                       'all (<=4 calls) or sampled permutations; evaluations = (sentence, world) values compared; distinct = call sets')
    rep.sample({k: cases[5][k] for k in ('id', 'calls', 'perms')})
