"""C15 -- substitution and the derived attributes of sentences are exact.

Pipeline B+A: TLC (C15_Lex.tla / Lex.tla) generates every closed first-order
sentence of its grammar up to a size bound; the driver records substitute() for
25 parameter pairs, unquantify / `>>`, negative() and the six derived attributes;
TLC compares them with the reference functions.
"""
import json

import common as C

GEN_CFG = "SPECIFICATION GenSpec\nPOSTCONDITION GenPost\nCHECK_DEADLOCK FALSE\n"
VAL_CFG = "SPECIFICATION Spec\nINVARIANT Publish\nPOSTCONDITION Post\nCHECK_DEADLOCK FALSE\n"


def generate(rep, d, n, stride, tag='c15gen'):
    (d / 'par.json').write_text(json.dumps({'n': n, 'stride': stride}))
    g = C.tlc('C15_Lex', GEN_CFG, env={'CASES': '/dev/null', 'PAR': d / 'par.json'}, out_name='sents.ndjson', tag=tag,
              timeout=1800, xmx='6g')
    rep.add_tlc(g)
    return g.out_path


def run(rep):
    rep.group_keys = ('clause', 'top')
    d = C.subdir('c15')
    thorough = rep.tier == 'thorough'
    sents = generate(rep, d, 2, 1 if thorough else 9)
    n = sum(1 for _ in open(sents))
    ns = C.NCPU
    C.run_drivers_parallel([('d_lex.py', [sents, d / f'obs{k}.ndjson', k, ns], {'hooks': False}) for k in range(ns)])
    res = C.tlc_parallel([dict(module='C15_Lex', cfg=VAL_CFG, env={'CASES': d / f'obs{k}.ndjson', 'PAR': d / 'par.json'},
                               tag=f'c15val{k}', timeout=3400) for k in range(ns)])
    total = 0
    for r in res:
        if r.json is None:
            raise C.MachineryError('C15: validator wrote no result\n' + r.out[-1500:])
        total += r.json['n']
        rep.add_tlc(r, traces=r.json['n'])
        for f in r.json['bad']:
            det = f['detail'] if isinstance(f['detail'], dict) else {}
            rep.violation({'kind': 'lex', 'clause': f['clause'], 'top': f['top'], 'relation': det.get('relation', '')}, f)
    if total != n:
        raise C.MachineryError(f'C15: {n} sentences generated, {total} validated')
    rep.cov['evaluations'] = n * 25
    rep.cov['sentences'] = n
    rep.cov['distinct_nontrivial'] = n
    rep.cov['rule'] = ('sentences = the closed first-order sentences with <=2 connectives/quantifiers of the grammar in Lex.tla '
                       '(2 constants, 2 variables, F/1, H/2, identity, 4 operators, 2 quantifiers); quick keeps every 9th of the largest size; '
                       'each substituted with 25 (new, old) parameter pairs incl. same / absent / bound variable')
    rep.cov['exhaustive'] = thorough
    with open(d / 'obs2.ndjson') as f:
        c = json.loads(f.readline())
        rep.sample({'s': c['s'], 'operators': c['operators'], 'sub': c['subs'][1]})
