"""C19 -- every finished tableau renders, deterministically and faithfully.

Pipeline A: finished tableaux of the shared corpus (valid, invalid, premature by
step limit; all 57 logics) are rendered in every registered format x notation,
twice; the plain-text drawing is de-laid-out by the harness into root-to-leaf
paths; TLC (Render.tla) compares them with ExpectedBranchTokens of the tableau.
"""
import json

import common as C
import proofs as P

VAL_CFG = "SPECIFICATION Spec\nINVARIANT Publish\nPOSTCONDITION Post\nCHECK_DEADLOCK FALSE\n"


def run(rep):
    rep.group_keys = ('clause', 'format', 'notation')
    d = C.subdir('c19')
    thorough = rep.tier == 'thorough'
    jobs = P.corpus_jobs(rep.seed, 40 if thorough else 6, 'c19', 'verdict', orders=1, max_steps=60, models=1)
    for n, j in enumerate(jobs):
        if n % 4 == 0:
            j['max_steps'] = 1 + n % 5
    jf = d / 'jobs.ndjson'
    C.write_ndjson(jf, jobs)
    ns = C.NCPU
    C.run_drivers_parallel([('d_render.py', [jf, d / f'obs{k}.ndjson', k, ns], {'order': 0, 'timeout': 7200}) for k in range(ns)])
    res = C.tlc_parallel([dict(module='Render', cfg=VAL_CFG, env={'CASES': d / f'obs{k}.ndjson'}, tag=f'c19val{k}', timeout=3400, xmx='3g')
                          for k in range(ns)])
    total = 0
    for r in res:
        if r.json is None:
            raise C.MachineryError('C19: validator wrote no result\n' + r.out[-1500:])
        total += r.json['n']
        rep.add_tlc(r, traces=r.json['n'])
        for f in r.json['bad']:
            rep.violation({'kind': 'render', 'clause': f['clause'], 'format': f['format'], 'notation': f['notation'],
                           'logic': f['logic']}, f)
    nprem = 0
    sample = None
    for k in range(ns):
        for line in open(d / f'obs{k}.ndjson'):
            c = json.loads(line)
            nprem += c['premature']
            if sample is None and len(c['branches']) >= 3:
                sample = {'id': c['id'], 'paths': c['renders'][0]['paths'][:2]}
    rep.cov['evaluations'] = total * 3
    rep.cov['tableaux_x_notation'] = total
    rep.cov['premature_tableaux'] = nprem
    rep.cov['distinct_nontrivial'] = total
    rep.cov['rule'] = ('one case per finished corpus tableau x notation, rendered in text/html/latex twice; distinct = (proof, notation); '
                       'non-trivial = all (every tableau has a trunk)')
    if sample:
        rep.sample(sample)
    rep.assumptions += ['the inverse of the text layout (d_render.parse_struct, ~40 lines) is trusted',
                        'html / latex: error-free and idempotent only, as the property states']
