"""C09 -- the verdict does not depend on how the proof is searched.

Pipeline A: each argument of the corpus is proved under 2x2 optimisation options
x {build(), step() loop} x order seeds x premise permutations/duplications; TLC
(C09_Trace.tla / Consequence.tla) feeds every recorded run into the verdict map
keyed by (logic, conclusion, premise SET) and rejects a raise or a second
outcome class for a key.
"""
import json
import zlib

import common as C
import proofs as P
import tableaumc

VAL_CFG = "SPECIFICATION Spec\nINVARIANT Publish\nINVARIANT OneOutcomeClass\nPOSTCONDITION Post\nCHECK_DEADLOCK FALSE\n"


def variants(arg, thorough):
    pre = arg['prems']
    out = []
    orders = range(4) if thorough else range(2)
    for n, (g, r) in enumerate(P.OPTS4):
        for mode in (('build', 'step') if thorough else (('build', 'step')[n % 2],)):
            for o in (orders if thorough else ((n % 2),)):
                out.append((arg, g, r, mode, o, 'plain'))
    out.append((arg, 1, 1, 'build', 2 if thorough else 1, 'order2'))
    out.append((arg, 1, 0, 'step', 3 if thorough else 0, 'order3'))
    if len(pre) >= 2:
        out.append(({'prems': list(reversed(pre)), 'conc': arg['conc']}, 1, 1, 'build', 0, 'reversed'))
        out.append(({'prems': pre[1:] + pre[:1], 'conc': arg['conc']}, 0, 1, 'step', 1, 'rotated'))
    if len(pre) >= 1:
        out.append(({'prems': pre + pre[:1], 'conc': arg['conc']}, 1, 1, 'build', 0, 'duplicated'))
        out.append(({'prems': pre[:1] + pre, 'conc': arg['conc']}, 0, 0, 'build', 1, 'duplicated-front'))
        out.append(({'prems': pre * 8, 'conc': arg['conc']}, 1, 1, 'build', 0, 'duplicated-x8'))
    return out


def run(rep):
    rep.group_keys = ('clause', 'logic_family', 'root')
    d = C.subdir('c09')
    thorough = rep.tier == 'thorough'
    # pipeline C: one verdict over ALL schedules of the calculus (rule table extracted from the code)
    tableaumc.run(rep, ['CPL', 'K3', 'LP', 'FDE', 'L3', 'GO'] if thorough else ['CPL', 'K3', 'LP', 'FDE'], d, 'c09', full=thorough)
    import corpus
    jobs = []
    nargs = 0
    for n, (L, label, arg) in enumerate(corpus.corpus(rep.seed, 30 if thorough else 6, P.LOGIC_META, 'c09')):
        if not thorough and label.startswith('schema:') and not label.startswith('schema:ord-') and (n + zlib.crc32(L.encode())) % 3:
            continue
        nargs += 1
        for k, (a, g, r, mode, o, how) in enumerate(variants(arg, thorough)):
            jobs.append({'id': f'{L}/{label}/{how}/g{g}r{r}/{mode}/o{o}', 'logic': L, 'arg': a, 'g': g, 'r': r, 'mode': mode,
                         'order': o, 'level': 'verdict', 'max_steps': 150, 'timeout_s': 20})
    outs = P.run_jobs(jobs, 'c09')
    recs = []
    for r in P.read_records(outs):
        recs.append({'id': r['id'], 'logic': r['logic'], 'arg': r['arg'], 'argstr': r['argstr'], 'g': r['g'], 'r': r['r'],
                     'mode': r['mode'], 'order': int(r['id'].rsplit('/o', 1)[1]), 'outcome': r['outcome'] if r['raised'] != 'Watchdog' else 'limit',
                     'raised': r['raised'], 'rules': r.get('rules', [])})
    # all runs of one key must meet in one TLC process: shard by (logic, conclusion, premise set)
    ns = C.NCPU
    shards = [[] for _ in range(ns)]
    for r in recs:
        key = json.dumps([r['logic'], r['arg']['conc'], sorted(json.dumps(p) for p in r['arg']['prems'])])
        shards[zlib.crc32(key.encode()) % ns].append(r)
    calls = []
    for k, sh in enumerate(shards):
        f = d / f'runs{k}.ndjson'
        C.write_ndjson(f, sh)
        calls.append(dict(module='C09_Trace', cfg=VAL_CFG, env={'CASES': f}, tag=f'c09val{k}', timeout=3400, xmx='3g'))
    total = 0
    for res in C.tlc_parallel(calls):
        if res.json is None:
            raise C.MachineryError('C09: validator wrote no result\n' + res.out[-1500:])
        total += res.json['n']
        rep.add_tlc(res, traces=res.json['n'])
        for f in res.json['bad']:
            rep.violation({'kind': 'search_dependence', 'clause': f['clause'], 'logic_family': P.family(f['logic']),
                           'root': (f['raised'].split(':')[0] if f['clause'] == 'Raised' else P.root_cause(f['logic'], f['rules'])),
                           'logic': f['logic'], 'argstr': f['argstr'], 'opts': f"g{f['g']}r{f['r']}/{f['mode']}/o{f['order']}"}, f)
    if total != len(recs):
        raise C.MachineryError('C09: TLC validated a different number of runs')
    outcomes = {}
    for r in recs:
        outcomes[r['outcome']] = outcomes.get(r['outcome'], 0) + 1
    rep.cov['evaluations'] = len(recs)
    rep.cov['outcomes'] = outcomes
    rep.cov['distinct_nontrivial'] = nargs
    rep.cov['rule'] = ('runs = (logic, argument) x option combinations x build/step x order seeds x premise permutations/duplications; '
                       'distinct = (logic, argument) keys, each run in >= 6 configurations')
    rep.sample([r['id'] for r in recs[:8]])
