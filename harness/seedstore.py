"""Copy confirmed seeded changes into /verif/seeded/<id>/ with meta.json (confirmation + which checks catch them).

usage: seedstore.py <confirm files...>   (reads /tmp/seeded<R>/<Cnn>/<X>/{patch.diff,demo.py,notes.md};
round R > 1 is stored as <Cnn>-<X><R>)
"""
import json
import os
import re
import shutil
import subprocess
import sys

HERE = os.path.dirname(os.path.dirname(os.path.abspath(__file__)))
conf = {}
for f in sys.argv[1:]:
    for line in open(f):
        m = re.match(r'(/tmp/seeded(\d*)/(C\d+)/([AB])) DEMO_CLEAN=(\d+) DEMO_MUT=(\d+) SUITE=(.*)', line.strip())
        if m:
            conf[(m.group(3), m.group(4) + m.group(2))] = {'dir': m.group(1), 'demo_clean_rc': int(m.group(5)),
                                                           'demo_mut_rc': int(m.group(6)), 'suite': m.group(7)}
for (prop, x), c in sorted(conf.items()):
    ok = (c['demo_clean_rc'] == 0 and c['demo_mut_rc'] not in (0, 124) and '11273 passed' in c['suite']
          and ('failed' not in c['suite'] or '2 failed' in c['suite']) and ('error' not in c['suite'] or '18 errors' in c['suite']))
    if not ok:
        print('NOT CONFIRMED', prop, x, c)
        continue
    d = os.path.join(HERE, 'seeded', f'{prop}-{x}')
    os.makedirs(d, exist_ok=True)
    for fn in ('patch.diff', 'demo.py', 'notes.md'):
        shutil.copy(os.path.join(c['dir'], fn), os.path.join(d, fn))
    notes = open(os.path.join(d, 'notes.md')).read()
    meta_path = os.path.join(d, 'meta.json')
    meta = json.load(open(meta_path)) if os.path.exists(meta_path) else {}
    meta.update({
        'id': f'{prop}-{x}', 'property': prop,
        'source': 'written by a fresh sub-agent given only the property text and a scratch worktree of /repo',
        'what_and_needs': notes[:2500],
        'confirmed_by_me': {
            'how': 'harness/confirm_seed.sh in a scratch copy of /repo: demo on clean tree, patch applied, demo again, full pytest suite',
            'demo_on_clean_tree_rc': c['demo_clean_rc'], 'demo_with_change_rc': c['demo_mut_rc'], 'suite_with_change': c['suite'],
            'baseline_suite': '2 failed, 11273 passed, 11 skipped, 18 errors (the 20 non-passing tests are the pinned baseline always-fail set)'},
    })
    json.dump(meta, open(meta_path, 'w'), indent=1)
    print('stored', d)
