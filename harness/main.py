"""CLI entry: ./check <id> --tier quick|thorough [--replay f]

exit 0: property held on everything explored (known findings printed)
exit 1: VIOLATION line(s) printed
exit 2: machinery failure (never a property verdict)
"""
import argparse
import importlib
import os
import sys
import traceback

sys.path.insert(0, os.path.dirname(os.path.abspath(__file__)))
import common  # noqa: E402


def main():
    ap = argparse.ArgumentParser()
    ap.add_argument('prop')
    ap.add_argument('--tier', default=os.environ.get('VERIF_TIER') or 'quick', choices=['quick', 'thorough'])
    ap.add_argument('--replay')
    ap.add_argument('--selftest', action='store_true')
    a = ap.parse_args()
    seed = int(os.environ.get('VERIF_SEED') or 0)
    prop = a.prop.upper()
    try:
        mod = importlib.import_module(f'props.{prop.lower()}')
        rep = common.Report(prop, a.tier, seed)
        if a.replay:
            rc = mod.replay(rep, a.replay)
        elif a.selftest:
            rc = mod.selftest(rep)
        else:
            mod.run(rep)
            rc = rep.finish()
    except common.MachineryError as e:
        print(f'MACHINERY-FAILURE {prop}: {e}', file=sys.stderr)
        sys.exit(2)
    except Exception:
        traceback.print_exc()
        print(f'MACHINERY-FAILURE {prop}: unexpected exception', file=sys.stderr)
        sys.exit(2)
    sys.exit(rc)


if __name__ == '__main__':
    main()
