"""Call sets and evaluation sentences for C08 / C20 (pure python, seeded)."""
from __future__ import annotations

import itertools
import random

from corpus import A, C, V, O, Neg, P, Q, F1, G1, H2, IDENT, EXIST, BIN, UN, MOD

VALUES = {2: ['F', 'T'], 3: None, 4: ['F', 'N', 'B', 'T']}


def values_of(logic, nvals, glutty):
    if nvals == 2:
        return ['F', 'T']
    if nvals == 4:
        return ['F', 'N', 'B', 'T']
    return ['F', 'B', 'T'] if glutty else ['F', 'N', 'T']


def eval_sentences(modal, quantified, consts, rng, extra=30):
    """sentences ordered by depth; vocabulary: letters a,b; F,G unary, H binary, identity, existence"""
    cs = [C(i) for i in consts] or []
    lits = [A(0), A(1)]
    for c in cs:
        lits += [P(F1, c), P(G1, c)]
    for c, d in itertools.product(cs, cs):
        lits.append(P(H2, c, d))
        lits.append(P(IDENT, c, d))
    for c in cs:
        lits.append(P(EXIST, c))
    x, y = V(0), V(1)
    quants = []
    for q in ('Existential', 'Universal'):
        quants += [Q(q, x, P(F1, x)), Q(q, x, P(G1, x)), Q(q, x, Neg(P(F1, x))), Q(q, x, P(H2, x, x))]
        if cs:
            quants += [Q(q, x, P(H2, x, cs[0])), Q(q, x, P(IDENT, x, cs[0]))]
        quants += [Q(q, x, O(op, P(F1, x), P(G1, x))) for op in ('Conjunction', 'Disjunction', 'MaterialConditional', 'Conditional')]
        quants += [Q(q, x, Q(q2, y, P(H2, x, y))) for q2 in ('Existential', 'Universal')]
    base = lits[:10] + quants
    d1 = []
    small = [A(0), A(1)] + lits[2:6] + quants[:4]
    for op in UN:
        d1 += [O(op, s) for s in small]
    for op in BIN:
        for s, t in itertools.product(small[:6], small[:6]):
            d1.append(O(op, s, t))
    mods = []
    for m in MOD:
        mods += [O(m, s) for s in small]
        mods += [O(m, O(m2, s)) for m2 in MOD for s in small[:4]]
        mods += [O(m, O('Disjunction', small[0], Neg(small[1]))), O(m, Neg(small[0])), Neg(O(m, small[0]))]
        mods += [Q('Universal', x, O(m, P(F1, x))), O(m, Q('Existential', x, P(F1, x)))]
    out = lits + quants + d1 + mods
    # a few random deeper ones
    for _ in range(extra):
        op = rng.choice(BIN)
        out.append(O(op, rng.choice(d1 + mods), rng.choice(d1 + quants)))
    # dedupe, keep order
    seen, res = set(), []
    for s in out:
        k = repr(s)
        if k not in seen:
            seen.add(k)
            res.append(s)
    return res


def call_sets(logic, modal, quantified, classical, vals, rng, n):
    worlds = [0, 1, 2] if modal else [-1]
    sets = []
    # targeted sets: identity / congruence order effects (classical family), unset tuples, access chains
    a, b, c = C(0), C(1), C(2)
    w0 = worlds[0]
    T = vals[-1]
    sets.append([{'op': 'pred', 'w': w0, 'w2': -1, 's': P(F1, a), 'v': T},
                 {'op': 'pred', 'w': w0, 'w2': -1, 's': P(IDENT, a, b), 'v': T},
                 {'op': 'pred', 'w': w0, 'w2': -1, 's': P(IDENT, b, c), 'v': T},
                 {'op': 'pred', 'w': w0, 'w2': -1, 's': P(H2, a, b), 'v': T}])
    sets.append([{'op': 'pred', 'w': w0, 'w2': -1, 's': P(F1, a), 'v': T},
                 {'op': 'pred', 'w': w0, 'w2': -1, 's': P(G1, b), 'v': T}])
    if modal:
        sets.append([{'op': 'access', 'w': 0, 'w2': 1, 's': [], 'v': ''}, {'op': 'access', 'w': 1, 'w2': 2, 's': [], 'v': ''},
                     {'op': 'atomic', 'w': 2, 'w2': -1, 's': A(0), 'v': T},
                     {'op': 'atomic', 'w': 0, 'w2': -1, 's': A(0), 'v': vals[0]}])
        sets.append([{'op': 'access', 'w': 0, 'w2': 1, 's': [], 'v': ''}, {'op': 'access', 'w': 0, 'w2': 2, 's': [], 'v': ''},
                     {'op': 'pred', 'w': 1, 'w2': -1, 's': P(F1, a), 'v': T},
                     {'op': 'pred', 'w': 2, 'w2': -1, 's': P(F1, b), 'v': vals[len(vals) // 2]}])
        # longer access chains (closure needs more than one sweep), added in an order that is not the path order
        sets.append([{'op': 'access', 'w': 2, 'w2': 3, 's': [], 'v': ''}, {'op': 'access', 'w': 0, 'w2': 1, 's': [], 'v': ''},
                     {'op': 'access', 'w': 1, 'w2': 2, 's': [], 'v': ''},
                     {'op': 'atomic', 'w': 3, 'w2': -1, 's': A(0), 'v': vals[0]},
                     {'op': 'atomic', 'w': 0, 'w2': -1, 's': A(0), 'v': T}])
        sets.append([{'op': 'access', 'w': 3, 'w2': 4, 's': [], 'v': ''}, {'op': 'access', 'w': 1, 'w2': 2, 's': [], 'v': ''},
                     {'op': 'access', 'w': 0, 'w2': 1, 's': [], 'v': ''}, {'op': 'access', 'w': 2, 'w2': 3, 's': [], 'v': ''},
                     {'op': 'pred', 'w': 4, 'w2': -1, 's': P(F1, a), 'v': vals[0]}])
        # world numbers beyond the small-int range in which hash order and numeric order coincide
        sets.append([{'op': 'access', 'w': 1, 'w2': 9, 's': [], 'v': ''}, {'op': 'access', 'w': 1, 'w2': 3, 's': [], 'v': ''},
                     {'op': 'access', 'w': 7, 'w2': 8, 's': [], 'v': ''}, {'op': 'access', 'w': 7, 'w2': 7, 's': [], 'v': ''},
                     {'op': 'access', 'w': 8, 'w2': 16, 's': [], 'v': ''}, {'op': 'access', 'w': 8, 'w2': 1, 's': [], 'v': ''},
                     {'op': 'atomic', 'w': 9, 'w2': -1, 's': A(0), 'v': T},
                     {'op': 'atomic', 'w': 1, 'w2': -1, 's': A(0), 'v': vals[0]}])
        if classical:
            # identity facts that differ between worlds: congruence is per world
            sets.append([{'op': 'pred', 'w': 1, 'w2': -1, 's': P(F1, a), 'v': T},
                         {'op': 'pred', 'w': 1, 'w2': -1, 's': P(IDENT, a, b), 'v': T},
                         {'op': 'access', 'w': 0, 'w2': 1, 's': [], 'v': ''}])
            sets.append([{'op': 'pred', 'w': 0, 'w2': -1, 's': P(IDENT, a, b), 'v': T},
                         {'op': 'pred', 'w': 2, 'w2': -1, 's': P(F1, a), 'v': T},
                         {'op': 'pred', 'w': 2, 'w2': -1, 's': P(H2, a, c), 'v': T},
                         {'op': 'access', 'w': 0, 'w2': 2, 's': [], 'v': ''}])
    while len(sets) < n:
        k = rng.choice([2, 3, 3, 4, 4, 5])
        cs = []
        for _ in range(k):
            r = rng.random()
            w = rng.choice(worlds)
            if modal and r < 0.3:
                cs.append({'op': 'access', 'w': rng.choice(worlds), 'w2': rng.choice(worlds), 's': [], 'v': ''})
            elif r < 0.5:
                cs.append({'op': 'atomic', 'w': w, 'w2': -1, 's': A(rng.randrange(2)), 'v': rng.choice(vals)})
            elif r < 0.9:
                pr = rng.choice([F1, F1, G1, H2, IDENT, EXIST])
                params = [C(rng.randrange(3)) for _ in range(pr[2])]
                cs.append({'op': 'pred', 'w': w, 'w2': -1, 's': P(pr, *params), 'v': rng.choice(vals)})
            else:
                if not quantified:
                    s = Q('Existential', V(0), P(F1, V(0)))
                elif not modal:
                    s = O('Possibility', A(0))
                else:
                    continue
                cs.append({'op': 'opaque', 'w': w, 'w2': -1, 's': s, 'v': rng.choice(vals)})
        if cs:
            sets.append(cs)
    return sets


def perms_of(n, rng, cap):
    allp = list(itertools.permutations(range(n)))
    if len(allp) <= cap:
        return [list(p) for p in allp]
    out = [list(range(n)), list(reversed(range(n)))]
    while len(out) < cap:
        p = list(range(n))
        rng.shuffle(p)
        if p not in out:
            out.append(p)
    return out
