"""Regenerates /verif/MANIFEST.json from the table below (single source of truth)."""
import json
import os

HERE = os.path.dirname(os.path.dirname(os.path.abspath(__file__)))

# id -> (technique, level text, level note, design ref)
CHECKS = {
 'C07': ('TLA+ literature truth tables (Semantics.tla) vs. recorded Model.truth_table: exhaustive TLC batch validation',
         'Every row of every truth-functional table of all 57 logics, the value/designated sets and the definitional identities are compared by TLC with the tables transcribed in Semantics.tla; the space is finite and covered completely.',
         'Trusted: my transcription of the documented/literature tables into Semantics.tla (cross-checked against rules by C04 and against the evaluator by C08); TLC; the 40-line dump driver.',
         '4/C07'),
}

PENDING = {}

ALL = [f'C{n:02d}' for n in range(1, 21)]


def main():
    checks = []
    for pid in ALL:
        if pid not in CHECKS:
            continue
        tech, text, note, ref = CHECKS[pid]
        checks.append({
            'property_id': pid,
            'quick_cmd': f'./check {pid} --tier quick',
            'thorough_cmd': f'./check {pid} --tier thorough',
            'evidence_file': f'/verif/evidence/{pid}.json',
            'replay_cmd_template': f'./check {pid} --replay {{path}}',
            'engine': 'tla',
            'level_claimed': {'category': 'model_checking', 'text': text, 'design_ref': f'DESIGN.md section {ref}'},
            'level_note': note,
            'technique': tech,
        })
    na = [{'property_id': pid,
           'reason': PENDING.get(pid, 'check not built yet in this round (planned, see DESIGN.md section 6); not claimed until it runs clean')}
          for pid in ALL if pid not in CHECKS]
    m = {
        'version': 1,
        'setup_cmd': 'sh /verif/setup.sh',
        'hooks': {
            'guard': 'PYTABLEAUX_VERIF',
            'enable': 'PYTABLEAUX_VERIF=1 [PYTABLEAUX_VERIF_ORDER=<int>] in the environment of the driver process (pure python, nothing to build)',
            'baseline_off_cmd': 'cd /repo && env -u PYTABLEAUX_VERIF -u PYTABLEAUX_VERIF_ORDER /venv/bin/python -m pytest -ra -q -p no:cacheprovider --timeout=900 --continue-on-collection-errors',
            'source_commits': json.load(open(os.path.join(HERE, 'hooks.json')))['source_commits'] if os.path.exists(os.path.join(HERE, 'hooks.json')) else [],
            'add_only': True,
        },
        'engines': [{'name': 'tla', 'path': '/verif/spec', 'serves_properties': [c['property_id'] for c in checks],
                     'kind_free_text': 'explicit TLA+ specifications checked with TLC 1.8; bound to the code by trace validation (record->validate), spec-generated cases replayed into the code, and model checking of the design'}],
        'checks': checks,
        'not_applicable': na,
        'notes': 'Exit codes of ./check: 0 held (KNOWN-FINDING lines for listed defects), 1 VIOLATION, 2 machinery failure. known_findings.json is read-only at run time.',
    }
    with open(os.path.join(HERE, 'MANIFEST.json'), 'w') as f:
        json.dump(m, f, indent=1)
    print('MANIFEST.json:', len(checks), 'checks,', len(na), 'not_applicable')


if __name__ == '__main__':
    main()
