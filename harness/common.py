"""Shared machinery: scratch dirs, TLC runner, evidence writer, known findings.

Everything here is stdlib only.  The python that *imports pytableaux* is
/venv/bin/python (see ``run_driver``); this module itself is import-safe from any
python3.
"""
from __future__ import annotations

import atexit
import hashlib
import json
import os
import re
import shutil
import subprocess
import sys
import tempfile
import time
from concurrent.futures import ThreadPoolExecutor
from pathlib import Path

VERIF = Path(__file__).resolve().parent.parent
SPEC = VERIF / 'spec'
HARNESS = VERIF / 'harness'
EVIDENCE = Path(os.environ.get('VERIF_EVIDENCE_DIR') or VERIF / 'evidence')
REPLAYS = Path(os.environ.get('VERIF_OUT_DIR') or VERIF / 'out') / 'replays'
REPO = os.environ.get('VERIF_REPO', '/repo')
PY = os.environ.get('VERIF_PYTHON', '/venv/bin/python')
TLA_CP = '/opt/veriftools/tla/tla2tools.jar:/opt/veriftools/tla/CommunityModules-deps.jar'
NCPU = min(16, os.cpu_count() or 4)
GUARD = 'PYTABLEAUX_VERIF'
ORDER = 'PYTABLEAUX_VERIF_ORDER'


class MachineryError(Exception):
    "Something in the verification machinery itself failed (exit code 2)."


# --------------------------------------------------------------------------
# scratch
# --------------------------------------------------------------------------

_scratch = None


def scratch() -> Path:
    global _scratch
    if _scratch is None:
        base = os.environ.get('VERIF_SCRATCH') or tempfile.gettempdir()
        _scratch = Path(tempfile.mkdtemp(prefix='verif-', dir=base))
        if not os.environ.get('VERIF_KEEP'):
            atexit.register(shutil.rmtree, _scratch, ignore_errors=True)
    return _scratch


def subdir(name: str) -> Path:
    d = scratch() / name
    d.mkdir(parents=True, exist_ok=True)
    return d


# --------------------------------------------------------------------------
# drivers (processes that import the code under test)
# --------------------------------------------------------------------------

def driver_env(order: int | None = None, extra: dict | None = None, hooks=True) -> dict:
    env = dict(os.environ)
    env['PYTHONPATH'] = f'{REPO}:{HARNESS}'
    # reproducible, but not always the same: the string-hash seed (iteration order of sets of lexical items) follows the
    # order seed of the job
    env['PYTHONHASHSEED'] = '0' if order is None else str(1000 + int(order))
    env['PYTHONDONTWRITEBYTECODE'] = '1'
    if hooks:
        env[GUARD] = '1'
        if order is not None:
            env[ORDER] = str(order)
    else:
        env.pop(GUARD, None)
        env.pop(ORDER, None)
    if extra:
        env.update({k: str(v) for k, v in extra.items()})
    return env


def run_driver(script: str, args: list, *, order=None, extra=None, timeout=3600,
               stdin: str | None = None, hooks=True) -> subprocess.CompletedProcess:
    """Run harness/drivers/<script> with the repo's interpreter."""
    cmd = [PY, str(HARNESS / 'drivers' / script), *map(str, args)]
    p = subprocess.run(cmd, env=driver_env(order, extra, hooks), capture_output=True,
                       text=True, timeout=timeout, input=stdin, cwd=str(scratch()))
    if p.returncode != 0:
        raise MachineryError(f'driver {script} {args} failed rc={p.returncode}\n'
                             f'{p.stdout[-2000:]}\n{p.stderr[-4000:]}')
    return p


def run_drivers_parallel(jobs: list[tuple], nproc=NCPU):
    """jobs: list of (script, args, kwargs). Returns list of CompletedProcess."""
    with ThreadPoolExecutor(max_workers=nproc) as ex:
        futs = [ex.submit(run_driver, s, a, **k) for s, a, k in jobs]
        return [f.result() for f in futs]


# --------------------------------------------------------------------------
# TLC
# --------------------------------------------------------------------------

_STATS = re.compile(r'(\d+) states generated, (\d+) distinct states found, (\d+) states left on queue')
_DEPTH = re.compile(r'The depth of the complete state graph search is (\d+)')


class TLCResult:
    def __init__(self, rc, out, outjson, wall):
        self.rc = rc
        self.out = out
        self.json = outjson
        self.wall = wall
        m = None
        for m in _STATS.finditer(out):
            pass
        self.generated = int(m.group(1)) if m else 0
        self.distinct = int(m.group(2)) if m else 0
        self.queue = int(m.group(3)) if m else 0
        d = _DEPTH.search(out)
        self.depth = int(d.group(1)) if d else 0
        self.violated = ('is violated' in out) or ('Invariant' in out and 'violated' in out)
        self.error = ('Error:' in out) or rc not in (0, 12, 13)

    # coverage lines: "<Action line x, col y to line z, col w of module M>: distinct:generated"
    def action_coverage(self) -> dict:
        cov = {}
        for m in re.finditer(r'<(\w+) line \d+, col \d+ to line \d+, col \d+ of module (\w+)>: (\d+):(\d+)', self.out):
            cov[m.group(1)] = cov.get(m.group(1), 0) + int(m.group(4))
        return cov


def _wait_for_memory(xmx: str, limit: float = 900.0) -> None:
    """Hold a TLC start back (up to `limit` seconds) while the machine has less free memory than the heap asked for."""
    need = (float(xmx[:-1]) * (1 if xmx.endswith('g') else 1 / 1024) + 1.0) * 1024 * 1024      # kB
    t0 = time.time()
    while time.time() - t0 < limit:
        try:
            with open('/proc/meminfo') as f:
                avail = next(int(l.split()[1]) for l in f if l.startswith('MemAvailable'))
        except (OSError, StopIteration, ValueError):
            return
        if avail >= need:
            return
        time.sleep(3)


def tlc(module: str, cfg: str, *, env: dict | None = None, workers: int | str = 1,
        timeout: int = 900, xmx: str = '3g', extra: list | None = None, tag: str = '',
        out_name: str = 'out.json', deque=False, check=True) -> TLCResult:
    """Run TLC on spec/<module>.tla with the given cfg text.

    The spec can read ``IOEnv.XXX`` for any key in ``env``; ``IOEnv.OUT`` is
    always set to a fresh file path whose JSON content (if written) is returned
    as ``result.json``.
    """
    tag = tag or module
    d = subdir(f'tlc-{tag}-{hashlib.sha1((cfg + repr(env) + str(time.time())).encode()).hexdigest()[:8]}')
    # TLC resolves modules relative to the main file's directory: give it a
    # private copy so parallel runs never share generated files.
    for f in SPEC.glob('*.tla'):
        shutil.copy(f, d / f.name)
    (d / f'{module}.cfg').write_text(cfg)
    out = d / out_name
    e = dict(os.environ)
    e.update({k: str(v) for k, v in (env or {}).items()})
    e['OUT'] = str(out)
    (d / 'jtmp').mkdir(exist_ok=True)       # TLC's temporary directories stay inside the scratch directory
    jopts = f'-Xmx{xmx} -Xss64m -XX:+UseParallelGC -Djava.io.tmpdir={d}/jtmp'
    if deque:
        jopts += ' -Dtlc2.tool.queue.IStateQueue=StateDeque'
    e['JAVA_TOOL_OPTIONS'] = jopts
    cmd = ['java', '-cp', TLA_CP, 'tlc2.TLC', '-workers', str(workers),
           '-metadir', str(d / 'meta'), '-noGenerateSpecTE', '-config', f'{module}.cfg',
           *(extra or []), f'{module}.tla']
    t0 = time.time()
    for attempt in range(4):
        _wait_for_memory(xmx)
        try:
            p = subprocess.run(cmd, env=e, cwd=str(d), capture_output=True, text=True, timeout=timeout)
        except subprocess.TimeoutExpired as ex:
            raise MachineryError(f'TLC timeout ({timeout}s) on {module} [{tag}]') from ex
        # a JVM killed from outside (the kernel's OOM killer when other jobs share the machine) says nothing
        # about the specification or the code: TLC is deterministic, run it again
        if p.returncode not in (-9, 137, -15, 143) or attempt == 3:
            break
        time.sleep(15 * (attempt + 1))
        shutil.rmtree(d / 'meta', ignore_errors=True)
        if out.exists():
            out.unlink()
    wall = time.time() - t0
    oj = None
    if out.exists() and out_name.endswith('.json'):
        try:
            oj = json.loads(out.read_text())
        except Exception as ex:  # pragma: no cover
            raise MachineryError(f'unreadable TLC output json {out}: {ex}')
    res = TLCResult(p.returncode, p.stdout + p.stderr, oj, wall)
    res.out_path = out
    if check and (res.error and not res.violated):
        keep = REPLAYS.parent / 'tlc-failures'
        keep.mkdir(parents=True, exist_ok=True)
        (keep / f'{tag}.log').write_text(res.out)
        raise MachineryError(f'TLC failed on {module} [{tag}] rc={p.returncode}:\n{res.out[-3000:]}')
    shutil.rmtree(d / 'meta', ignore_errors=True)
    shutil.rmtree(d / 'jtmp', ignore_errors=True)
    return res


def tlc_parallel(calls: list[dict], nproc=NCPU) -> list[TLCResult]:
    with ThreadPoolExecutor(max_workers=nproc) as ex:
        futs = [ex.submit(tlc, **c) for c in calls]
        return [f.result() for f in futs]


def write_ndjson(path: Path, records) -> int:
    n = 0
    with open(path, 'w') as f:
        for r in records:
            f.write(json.dumps(r, separators=(',', ':')))
            f.write('\n')
            n += 1
    return n


def shard(seq: list, n: int) -> list[list]:
    n = max(1, min(n, len(seq)))
    return [seq[i::n] for i in range(n)]


# --------------------------------------------------------------------------
# known findings
# --------------------------------------------------------------------------

def load_findings() -> list[dict]:
    p = VERIF / 'known_findings.json'
    if not p.exists():
        return []
    return json.loads(p.read_text()).get('known', [])


def _match(sig: dict, pat: dict) -> bool:
    """pat is a partial signature; a value {"$in": [...]} lists alternatives."""
    for k, v in pat.items():
        if k not in sig:
            return False
        sv = sig[k]
        if isinstance(v, dict) and '$in' in v:
            if sv not in v['$in']:
                return False
        elif isinstance(v, dict) and isinstance(sv, dict):
            if not _match(sv, v):
                return False
        elif sv != v:
            return False
    return True


class Report:
    """Collects violations (signature dicts), classifies them against
    known_findings.json, writes evidence and produces the exit code."""

    def __init__(self, prop: str, tier: str, seed: int, level='model_checking'):
        self.prop = prop
        self.tier = tier
        self.seed = seed
        self.level = level
        self.t0 = time.time()
        self.violations: list[tuple[dict, dict]] = []   # (signature, replay payload)
        self.cov: dict = {'states': 0, 'transitions': 0, 'traces_validated_against_impl': 0,
                          'evaluations': 0, 'samples': []}
        self.assumptions: list[str] = []
        self.notes: dict = {}

    # -- coverage ---------------------------------------------------------
    def add_tlc(self, r: TLCResult, traces: int = 0):
        self.cov['states'] += r.distinct
        self.cov['transitions'] += r.generated
        self.cov['traces_validated_against_impl'] += traces

    def add(self, key, n=1):
        self.cov[key] = self.cov.get(key, 0) + n

    def sample(self, x, cap=5):
        if len(self.cov['samples']) < cap:
            self.cov['samples'].append(x)

    def violation(self, sig: dict, payload: dict | None = None):
        sig = dict(sig)
        sig.setdefault('property', self.prop)
        self.violations.append((sig, payload or {}))

    # -- finish -----------------------------------------------------------
    def finish(self) -> int:
        known = [k for k in load_findings() if k.get('property') == self.prop]
        seen: dict[str, int] = {}
        new: list[tuple[dict, dict]] = []
        for sig, payload in self.violations:
            for k in known:
                if _match(sig, k['signature']):
                    seen[k['id']] = seen.get(k['id'], 0) + 1
                    break
            else:
                new.append((sig, payload))
        for k in known:
            if k['id'] in seen:
                print(f"KNOWN-FINDING: property={self.prop} {k['id']}: {k['what']} (seen {seen[k['id']]}x)")
        rc = 0
        if new:
            from collections import Counter
            gk = getattr(self, 'group_keys', None)
            cnt = Counter(json.dumps({k: v for k, v in sig.items() if (gk is None or k in gk)}, sort_keys=True)[:300]
                          for sig, _ in new) if gk else None
            if cnt:
                print('new violations by group:')
                for k, n in cnt.most_common(40):
                    print(f'  {n:6d}  {k}')
        reported = set()
        for sig, payload in new:
            key = json.dumps(sig, sort_keys=True)
            h = hashlib.sha1(key.encode()).hexdigest()[:12]
            if h in reported:
                continue
            reported.add(h)
            if len(reported) > 25:
                continue
            d = REPLAYS / self.prop
            d.mkdir(parents=True, exist_ok=True)
            path = d / f'{h}.json'
            path.write_text(json.dumps({'property': self.prop, 'signature': sig, 'payload': payload,
                                        'tier': self.tier, 'seed': self.seed}, indent=1, default=str))
            print(f'VIOLATION property={self.prop} replay={path}')
            print(f'  signature: {key[:600]}')
            rc = 1
        cov = self.cov
        if not cov['samples']:
            cov['samples'] = ['(no sample recorded)']
        cov['known_findings_seen'] = seen
        cov.update(self.notes)
        ev = {
            'property_id': self.prop, 'tier': self.tier, 'seed': self.seed, 'level': self.level,
            'coverage': cov, 'assumptions': self.assumptions,
            'wall_s': round(time.time() - self.t0, 2),
            'violations': len(reported),
        }
        EVIDENCE.mkdir(exist_ok=True)
        (EVIDENCE / f'{self.prop}.json').write_text(json.dumps(ev, indent=1, default=str))
        print(f'{self.prop} {self.tier}: states={cov["states"]} transitions={cov["transitions"]} '
              f'traces={cov["traces_validated_against_impl"]} evaluations={cov["evaluations"]} '
              f'known={sum(seen.values())} new={len(reported)} wall={ev["wall_s"]}s -> exit {rc}')
        return rc
