"""Running batches of proof jobs through drivers/d_proofs.py."""
from __future__ import annotations

import json
from collections import defaultdict

import common as C

ALL_LOGICS = ['B3E', 'CFOL', 'CPL', 'D', 'FDE', 'G3', 'GO', 'K', 'K3', 'K3W', 'K3WQ', 'KB3E', 'KFDE', 'KG3', 'KK3', 'KK3W',
              'KK3WQ', 'KL3', 'KLP', 'KRM3', 'L3', 'LP', 'MH', 'NH', 'P3', 'RM3', 'S4', 'S4B3E', 'S4FDE', 'S4G3', 'S4GO',
              'S4K3', 'S4K3W', 'S4K3WQ', 'S4L3', 'S4LP', 'S4RM3', 'S5', 'S5B3E', 'S5FDE', 'S5G3', 'S5K3', 'S5K3W', 'S5K3WQ',
              'S5L3', 'S5LP', 'S5RM3', 'T', 'TB3E', 'TFDE', 'TG3', 'TK3', 'TK3W', 'TK3WQ', 'TL3', 'TLP', 'TRM3']
NONMODAL = ['B3E', 'CFOL', 'CPL', 'FDE', 'G3', 'GO', 'K3', 'K3W', 'K3WQ', 'L3', 'LP', 'MH', 'NH', 'P3', 'RM3']
MODAL = [x for x in ALL_LOGICS if x not in NONMODAL]
B3E_FAMILY = ['B3E', 'KB3E', 'TB3E', 'S4B3E', 'S5B3E']
FDE_FAMILY = ['FDE', 'KFDE', 'TFDE', 'S4FDE', 'S5FDE']


def run_jobs(jobs: list[dict], tag: str, nproc=None, chunk=50):
    nproc = nproc or C.NCPU
    """jobs carry an 'order' field (default 0).  Returns the list of record files."""
    d = C.subdir(f'proofs-{tag}')
    by_order = defaultdict(list)
    for j in jobs:
        by_order[j.get('order', 0)].append(j)
    calls = []
    outs = []
    norders = len(by_order)
    per = max(1, nproc // norders)
    for o, js in sorted(by_order.items()):
        jf = d / f'jobs-o{o}.ndjson'
        C.write_ndjson(jf, js)
        n = min(per, max(1, len(js) // chunk))
        for k in range(n):
            out = d / f'recs-o{o}-{k}.ndjson'
            outs.append(out)
            calls.append(('d_proofs.py', [jf, out, k, n], {'order': o, 'timeout': 7200}))
    C.run_drivers_parallel(calls, nproc)
    return outs


def read_records(files):
    for f in files:
        with open(f) as fh:
            for line in fh:
                r = json.loads(line)
                if 'driver_error' in r:
                    raise C.MachineryError(f"proof driver failed on job {r['id']}: {r['driver_error']}")
                yield r


# --------------------------------------------------------------------------
# root-cause attribution for whole-proof violations (DESIGN.md 2.6)
# --------------------------------------------------------------------------
# rules that C04 shows to be unsound on the pinned tree (known findings of C04)
UNSOUND_RULES = {
    'B3E-family': {'BiconditionalUndesignated', 'BiconditionalNegatedDesignated'},
    'FDE-family': {'MaterialBiconditionalDesignated', 'MaterialBiconditionalNegatedUndesignated',
                   'BiconditionalDesignated', 'BiconditionalNegatedUndesignated'},
}


def family(logic):
    return 'B3E-family' if logic in B3E_FAMILY else 'FDE-family' if logic in FDE_FAMILY else logic


def root_cause(logic, rules, witness=()):
    """cheapest test first; returns '' when nothing on the ingredient list applies"""
    fam = family(logic)
    hit = sorted(UNSOUND_RULES.get(fam, set()) & set(rules))
    if hit:
        return f'unsound-rule:{hit[0]}'
    for w in witness:
        if w['kind'] == 'const' and w['item'] in w['present']:
            return 'non-fresh-constant'
        if w['kind'] == 'world' and w['w'] in w['presentw']:
            return 'non-fresh-world'
    return ''


LOGIC_META = {L: (L in MODAL, L not in ('CPL', 'P3')) for L in ALL_LOGICS}
OPTS4 = [(1, 1), (1, 0), (0, 1), (0, 0)]


def corpus_jobs(seed, per_logic, tag, level, *, orders=2, models=0, max_steps=150, mode=None, logics=None, timeout_s=20,
                systematic=False, default_too=False):
    """The shared random+schema corpus as proof jobs; options, driver mode and order seed rotate."""
    import corpus
    jobs = []
    meta = {L: m for L, m in LOGIC_META.items() if logics is None or L in logics}
    for n, (L, label, arg) in enumerate(corpus.corpus(seed, per_logic, meta, tag, systematic)):
        combos = [OPTS4[n % 4]]
        # the hand-written schemas are few and each stands for a mechanism: they are ALSO proved with the default options
        if default_too and label.startswith('schema:') and not label.startswith('schema:sys:') and combos[0] != OPTS4[0]:
            combos.append(OPTS4[0])
        for g, r in combos:
            jobs.append({'id': f'{L}/{label}/g{g}r{r}', 'logic': L, 'label': label, 'arg': arg, 'g': g, 'r': r,
                         'mode': mode or ('step' if n % 2 else 'build'), 'level': level, 'models': models,
                         'max_steps': max_steps, 'order': (n // 4) % orders, 'timeout_s': timeout_s})
    return jobs


# --------------------------------------------------------------------------
# vocabulary of an encoded argument (mirrors Models.tla Vocab) and search bounds
# --------------------------------------------------------------------------
MODAL_OPS = ('Possibility', 'Necessity')
NVALS = {}
for _L in ALL_LOGICS:
    _b = _L
    for _p in ('S4', 'S5', 'K', 'T'):
        if _L.startswith(_p) and _L != _p and _L not in ('K3', 'K3W', 'K3WQ'):
            _b = _L[len(_p):]
            break
    NVALS[_L] = 2 if _b in ('CPL', 'CFOL', 'K', 'D', 'T', 'S4', 'S5') else 4 if _b == 'FDE' else 3


def vocab(arg, modal, quantified):
    atoms, preds, consts, opaques = set(), set(), set(), set()
    flags = {'modal': False, 'quant': False, 'bad': False}

    def consts_of(s):
        if s[0] == 'P':
            return {tuple(p) for p in s[2] if p[0] == 'c'}
        if s[0] == 'Q':
            return consts_of(s[3])
        if s[0] == 'O':
            return set().union(*[consts_of(x) for x in s[2]])
        return set()

    def opaque(s):
        return (s[0] == 'Q' and not quantified) or (s[0] == 'O' and s[1] in MODAL_OPS and not modal)

    def walk(s, bound):
        consts.update(consts_of(s))
        if opaque(s):
            opaques.add(json.dumps(s))
            if bound:
                flags['bad'] = True
            return
        if s[0] == 'A':
            atoms.add(tuple(s))
        elif s[0] == 'P':
            preds.add(tuple(s[1]))
        elif s[0] == 'Q':
            flags['quant'] = True
            walk(s[3], True)
        else:
            if s[1] in MODAL_OPS:
                flags['modal'] = True
            for x in s[2]:
                walk(x, bound)

    for s in list(arg['prems']) + [arg['conc']]:
        walk(s, False)
    return dict(atoms=atoms, preds=preds, consts=consts, opaques=opaques, **flags)


def search_bounds(logic, arg, budget):
    """-> list of (nw, extra) to search, [] if nothing fits the budget or the argument is unsupported"""
    modal, quant = LOGIC_META[logic]
    v = vocab(arg, modal, quant)
    if v['bad']:
        return []
    nv = NVALS[logic]

    def models(nw, nc):
        cells = nw * (len(v['atoms']) + len(v['opaques'])) + nw * sum(nc ** p[2] for p in v['preds'])
        frames = 2 ** (nw * nw) if v['modal'] else 1
        return frames * nv ** cells

    named = len(v['consts'])
    emin = 1 if (named == 0 and (v['quant'] or v['preds'])) else 0
    emax = 2 if v['quant'] else emin
    out = []
    for extra in range(emin, emax + 1):
        nc = named + extra
        best = None
        for nw in ((1, 2, 3) if v['modal'] else (1,)):
            if models(nw, nc) <= budget:
                best = nw
        if best is not None:
            out.append((best, extra))
    return out
