#!/bin/sh
# confirm_seed.sh <dir with patch.diff and demo.py> : independent confirmation of a seeded change in a scratch copy
# prints: DEMO_CLEAN=<rc> DEMO_MUT=<rc> SUITE=<summary line>
set -u
d=$(cd "$1" && pwd)
w=$(mktemp -d /tmp/confirm-XXXXXX)
cp -r /repo/pytableaux /repo/test /repo/pytest.ini "$w"/ 2>/dev/null
cd "$w"
PYTHONPATH="$w" timeout 600 /venv/bin/python "$d/demo.py" "$w" >/dev/null 2>&1; clean=$?
if ! patch -p1 -s -i "$d/patch.diff"; then echo "PATCH-FAILED $d"; rm -rf "$w"; exit 2; fi
PYTHONPATH="$w" timeout 600 /venv/bin/python "$d/demo.py" "$w" >/dev/null 2>&1; mut=$?
suite=$(timeout 1500 /venv/bin/python -m pytest -q -p no:cacheprovider --timeout=900 test 2>&1 | tail -1)
echo "$d DEMO_CLEAN=$clean DEMO_MUT=$mut SUITE=$suite"
rm -rf "$w"
