#!/bin/sh
# Offline setup: nothing to build (specs are parsed by TLC at check time, drivers are
# pure python run against /repo's working tree).  Sanity-check the toolchain and that
# every TLA+ module parses, so a broken spec is a setup failure, not a check verdict.
set -e
cd "$(dirname "$0")"
java -version >/dev/null 2>&1
/venv/bin/python -c "import sys; assert sys.version_info >= (3, 10)"
mkdir -p evidence out
cd spec
fail=0
for f in *.tla; do
  if ! java -cp /opt/veriftools/tla/tla2tools.jar:/opt/veriftools/tla/CommunityModules-deps.jar tla2sany.SANY "$f" >/tmp/sany.$$ 2>&1 || grep -q "\*\*\* Errors\|Fatal\|Could not parse" /tmp/sany.$$; then
    echo "SANY failed on $f"; cat /tmp/sany.$$; fail=1
  fi
done
rm -f /tmp/sany.$$
exit $fail
