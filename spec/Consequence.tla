---------------------------- MODULE Consequence ----------------------------
(***************************************************************************)
(* C09, C10, C11: provability as a consequence relation.                   *)
(*                                                                         *)
(* State: verdict : Key -> {"valid", "invalid"}, filled by Finish events   *)
(* of recorded proofs (outcomes produced only by limits are not verdicts   *)
(* and are never entered).  The laws are invariants over that map; the     *)
(* trace specs feed recorded runs into it one event at a time, so that     *)
(* every prefix of the recorded history satisfies them.                    *)
(***************************************************************************)
EXTENDS Naturals, Sequences, FiniteSets, TLC

SeqToSet(q) == {q[j] : j \in 1..Len(q)}

\* C09: the key of a run disregards premise order and multiplicity and every search option
KeyOf(logic, arg) == <<logic, arg.conc, SeqToSet(arg.prems)>>

IsVerdict(o) == o \in {"valid", "invalid"}

\* enter a verdict; a conflicting one is kept out (and reported by the caller)
Enter(verdict, key, o) ==
  IF ~IsVerdict(o) \/ key \in DOMAIN verdict THEN verdict
  ELSE [k \in DOMAIN verdict \cup {key} |-> IF k = key THEN o ELSE verdict[k]]

Conflicts(verdict, key, o) == IsVerdict(o) /\ key \in DOMAIN verdict /\ verdict[key] # o

(* ---- syntax: injective renamings (C10) ---- *)
\* rho = [atoms |-> f, consts |-> g, preds |-> h, vars |-> u]; each a function on a finite
\* domain of indexes; identity outside its domain
Ap(f, x) == IF x \in DOMAIN f THEN f[x] ELSE x

RECURSIVE Rename(_, _)
RenameParam(rho, p) == IF p[1] = "c" THEN <<"c", Ap(rho.consts, p[2]), p[3]>> ELSE <<"v", Ap(rho.vars, p[2]), p[3]>>
Rename(rho, s) ==
  CASE s[1] = "A" -> <<"A", Ap(rho.atoms, s[2]), s[3]>>
    [] s[1] = "P" -> <<"P", (IF s[2][1] < 0 THEN s[2] ELSE <<Ap(rho.preds, s[2][1]), s[2][2], s[2][3]>>),
                       [j \in 1..Len(s[3]) |-> RenameParam(rho, s[3][j])]>>
    [] s[1] = "Q" -> <<"Q", s[2], RenameParam(rho, s[3]), Rename(rho, s[4])>>
    [] OTHER      -> <<"O", s[2], [j \in 1..Len(s[3]) |-> Rename(rho, s[3][j])]>>
RenameArg(rho, arg) == [prems |-> [j \in 1..Len(arg.prems) |-> Rename(rho, arg.prems[j])], conc |-> Rename(rho, arg.conc)]

Injective(f) == \A x, y \in DOMAIN f : f[x] = f[y] => x = y
=============================================================================
