----------------------------- MODULE C18_Trace -----------------------------
(***************************************************************************)
(* C18 conformance.  Generator: every sequence of DEPTH operation          *)
(* instances over the alphabet below (per container class).  Validator:    *)
(* after every operation on the real container, the observation must be    *)
(* internally consistent (ObsFail), the operation must raise exactly when  *)
(* the list model says so, and the resulting list must be an admissible    *)
(* post-state of the model.                                                *)
(***************************************************************************)
EXTENDS Containers, Json, IOUtils

NV == 5
Depth == JsonDeserialize(IOEnv.PAR).depth
E(op, v, w, i, sl, vals) == [op |-> op, v |-> v, w |-> w, i |-> i, sl |-> sl, vals |-> vals]

Alphabet(cls) ==
  <<E("append", 1, 0, 0, "", <<>>), E("append", 2, 0, 0, "", <<>>), E("add", 3, 0, 0, "", <<>>), E("add", 1, 0, 0, "", <<>>),
    E("insert", 4, 0, 0, "", <<>>), E("insert", 2, 0, -1, "", <<>>), E("insert", 3, 0, 9, "", <<>>),
    E("remove", 1, 0, 0, "", <<>>), E("discard", 2, 0, 0, "", <<>>),
    E("delitem", 0, 0, 0, "", <<>>), E("delitem", 0, 0, -1, "", <<>>), E("delslice", 0, 0, 0, "1:", <<>>),
    E("delslice", 0, 0, 0, "::2", <<>>),
    E("setitem", 4, 0, 0, "", <<>>), E("setitem", 1, 0, -1, "", <<>>), E("setitem", 2, 0, 1, "", <<>>),
    E("setslice", 0, 0, 0, ":2", <<3, 4>>), E("setslice", 0, 0, 0, "0:1", <<2>>), E("setslice", 0, 0, 0, ":2", <<4, 4>>),
    E("setslice", 0, 0, 0, "::2", <<1, 3>>), E("setslice", 0, 0, 0, "::-2", <<2, 4>>), E("delslice", 0, 0, 0, "::-2", <<>>),
    E("delslice", 0, 0, 0, "3:0:-2", <<>>),
    E("reverse", 0, 0, 0, "", <<>>), E("clear", 0, 0, 0, "", <<>>), E("copy", 0, 0, 0, "", <<>>),
    E("ior", 0, 0, 0, "", <<3, 1>>), E("iand", 0, 0, 0, "", <<1, 3>>), E("isub", 0, 0, 0, "", <<2, 4>>),
    E("ixor", 0, 0, 0, "", <<1, 4>>), E("extend", 0, 0, 0, "", <<2, 3>>)>>
  \* linqset offers wedge and no sort (the linked implementation has no in-place sort)
  \o (IF cls = "linqset" THEN <<E("wedge", 3, 1, 1, "", <<>>), E("wedge", 4, 2, -1, "", <<>>)>>
      ELSE <<E("sort", 0, 0, 0, "", <<>>), E("sortkr", 0, 0, 0, "", <<>>)>>)
  \* predicate store: bulk replacements whose arriving values conflict with TWO different members, of which the
  \* replaced slice may hold both, one or none
  \o (IF cls = "Predicates" THEN <<E("setslice", 0, 0, 0, ":2", <<2, 5>>), E("setslice", 0, 0, 0, "::2", <<5, 2>>),
                                   E("add", 5, 0, 0, "", <<>>)>>
      ELSE <<>>)

GenPost == LET A == Alphabet(IOEnv.CLS)
               seqs == SetToSeq([1..Depth -> 1..Len(A)])
               out == [j \in 1..Len(seqs) |-> [id |-> j, cls |-> IOEnv.CLS, ops |-> [k \in 1..Depth |-> A[seqs[j][k]]]]]
           IN /\ TLCSet(2, 0)
              /\ PrintT(<<"GENERATED", Len(seqs)>>)
              /\ ndJsonSerialize(IOEnv.OUT, out)

Cases == ndJsonDeserialize(IOEnv.CASES)

\* predicate store: universe value 1 = F/1, 2 = F/2 (same symbol, other arity), 3 = G/1, 4 = H/2, 5 = G/2
ConflictOf(cls) == IF cls = "Predicates" THEN {<<1, 2>>, <<2, 1>>, <<3, 5>>, <<5, 3>>} ELSE {}

RECURSIVE Walk(_, _, _)
Walk(tr, s, j) ==
  IF j > Len(tr.ops) THEN <<>>
  ELSE LET ev == tr.ops[j]
           m == Apply(ConflictOf(tr.cls), s, ev.e)
           of == ObsFail(NV, ev.obs)
           F(clause) == <<[id |-> tr.id, cls |-> tr.cls, clause |-> clause, event |-> j, op |-> ev.e.op, e |-> ev.e,
                           before |-> s, obs |-> ev.obs, res |-> ev.res]>>
       IN IF of # "" THEN F(of)
          ELSE IF (ev.res # "ok") # m.raises THEN F(IF m.raises THEN "ShouldRaise" ELSE "ShouldNotRaise")
          ELSE IF ev.obs.list \notin m.posts THEN F(IF m.raises THEN "RaiseLeavesUnchanged" ELSE "ModelStep")
          ELSE IF ev.e.op = "copy" /\ ev.orig # s THEN F("CopyLeavesOriginal")
          ELSE IF tr.cls = "Predicates" /\ \E p \in ConflictOf(tr.cls) : Has(ev.obs.list, p[1]) /\ Has(ev.obs.list, p[2])
               THEN F("NoArityConflict")
          ELSE IF tr.cls = "Predicates" /\ \E v \in 1..NV : Has(ev.obs.list, v) /\ \E k \in 1..Len(ev.refs[v]) : ev.refs[v][k] # v
               THEN F("FindsByEveryRef")
          ELSE IF tr.cls = "Predicates" /\ \E v \in 1..NV : \E k \in 1..Len(ev.refs[v]) :
                                            ev.refs[v][k] # 0 /\ ~Has(ev.obs.list, ev.refs[v][k])
               THEN F("NoStaleReference")
          ELSE Walk(tr, ev.obs.list, j + 1)

Failures(tr) == Walk(tr, <<>>, 1)

VARIABLES i, bad
B == INSTANCE Batch
Spec == B!BSpec
Publish == B!BPublish
Post == B!BPost
GenSpec == i = 0 /\ bad = <<>> /\ [][FALSE]_<<i, bad>>
=============================================================================
