------------------------------ MODULE C15_Lex ------------------------------
(***************************************************************************)
(* C15: substitution and the derived attributes of sentences are exact.    *)
(* Generator: every closed first-order sentence with <= N connectives /    *)
(* quantifiers of the grammar in Lex.tla (thinned by STRIDE at the top     *)
(* size).  Validator: recorded substitute / unquantify / negative / the    *)
(* six derived attributes against the reference functions of Lex.tla.      *)
(***************************************************************************)
EXTENDS Lex, Json, IOUtils, TLC

Par == JsonDeserialize(IOEnv.PAR)
GenPost == LET lower == SetToSeq(FOSentUpTo(Par.n - 1))
               top == SetToSeq(FON(Par.n, {}))
               pick == SelectSeq([j \in 1..Len(top) |-> IF j % Par.stride = 0 THEN top[j] ELSE <<>>], LAMBDA x : x # <<>>)
               \* a binary operator applied to the same operand twice (sequences must repeat it)
               ones == SetToSeq(FON(1, {}))
               twins == SelectSeq([j \in 1..Len(ones) |-> IF j % 3 = 0 THEN <<"O", IF j % 2 = 0 THEN "Conjunction" ELSE "Conditional", <<ones[j], ones[j]>>>> ELSE <<>>],
                                  LAMBDA x : x # <<>>)
               \* sentences only the constructors build (the parsers refuse them): vacuous quantifiers, alone and
               \* under operators / other quantifiers, and open sentences that differ only in the bound variable
               \* (each given twice: the second construction goes through the instance cache)
               vx == GVars[1]
               vy == GVars[2]
               c0 == <<"c", 0, 0>>
               c1 == <<"c", 1, 0>>
               Qn(q, v, b) == <<"Q", q, v, b>>
               Ng(x) == <<"O", "Negation", <<x>>>>
               closedBodies == << <<"A", 0, 0>>, <<"P", <<0, 0, 1>>, <<c0>>>>, <<"P", <<1, 0, 2>>, <<c0, c1>>>> >>
               vac == FlattenSeq([j \in 1..Len(closedBodies) |-> LET b == closedBodies[j] IN
                        << Qn("Existential", vx, b), Ng(Qn("Existential", vx, b)),
                           <<"O", "Conjunction", <<Qn("Universal", vx, b), <<"A", 1, 0>>>>>>,
                           Qn("Existential", vx, Qn("Universal", vy, b)),
                           <<"O", "Necessity", <<Ng(Qn("Existential", vx, Qn("Universal", vy, b)))>>>>,
                           <<"O", "Disjunction", <<Qn("Existential", vx, <<"P", <<0, 0, 1>>, <<vx>>>>), Qn("Universal", vy, b)>>>> >>])
               g2 == <<"P", <<1, 0, 2>>, <<vx, vy>>>>
               binder == << Qn("Existential", vx, g2), Qn("Existential", vy, g2), Qn("Existential", vy, g2),
                            Qn("Existential", vx, g2), Qn("Universal", vx, Qn("Existential", vy, g2)),
                            Qn("Universal", vy, Qn("Existential", vx, g2)), Qn("Universal", vy, Qn("Existential", vx, g2)),
                            Qn("Universal", vx, Qn("Existential", vy, g2)) >>
               seq == lower \o pick \o twins \o vac \o binder
               out == [j \in 1..Len(seq) |-> [id |-> j, s |-> seq[j]]]
           IN /\ TLCSet(2, 0)
              /\ PrintT(<<"GENERATED", Len(seq), Len(top)>>)
              /\ ndJsonSerialize(IOEnv.OUT, out)

Cases == ndJsonDeserialize(IOEnv.CASES)

\* the parameter pairs every sentence is substituted with (new, old), recorded in this order
SParams == <<<<"c", 0, 0>>, <<"c", 1, 0>>, <<"c", 2, 0>>, <<"v", 0, 0>>, <<"v", 2, 0>>>>

Failures(c) ==
  LET s == c.s
      F(clause, detail) == [id |-> c.id, clause |-> clause, top |-> s[1], detail |-> detail]
      badsub == {j \in 1..Len(c.subs) : c.subs[j].res # Subst(s, c.subs[j].new, c.subs[j].old)}
      badunq == {j \in 1..Len(c.unq) : c.unq[j].res # Unquantify(s, c.unq[j].c)}
  IN (IF badsub # {} THEN LET j == CHOOSE j \in badsub : TRUE IN
                           <<F("SubstituteExact", [new |-> c.subs[j].new, old |-> c.subs[j].old,
                                                    relation |-> IF c.subs[j].new = c.subs[j].old THEN "same"
                                                                 ELSE IF c.subs[j].old \in ParamsOf(s) THEN "occurs" ELSE "absent"])>>
      ELSE <<>>)
  \o (IF badunq # {} THEN <<F("UnquantifyIsSubstitution", "")>> ELSE <<>>)
  \o (IF c.negative # Negative(s) THEN <<F("NegativeExact", "")>> ELSE <<>>)
  \o (IF SeqToSet(c.constants) # ConstantsOf(s) \/ Len(c.constants) # Cardinality(ConstantsOf(s)) THEN <<F("Constants", "")>> ELSE <<>>)
  \o (IF SeqToSet(c.variables) # VariablesOf(s) \/ Len(c.variables) # Cardinality(VariablesOf(s)) THEN <<F("Variables", "")>> ELSE <<>>)
  \o (IF SeqToSet(c.predicates) # PredicatesOf(s) \/ Len(c.predicates) # Cardinality(PredicatesOf(s)) THEN <<F("Predicates", "")>> ELSE <<>>)
  \o (IF SeqToSet(c.atomics) # AtomicsOf(s) \/ Len(c.atomics) # Cardinality(AtomicsOf(s)) THEN <<F("Atomics", "")>> ELSE <<>>)
  \o (IF c.operators # OperatorsOf(s) THEN <<F("OperatorsPrefixOrder", "")>> ELSE <<>>)
  \o (IF c.quantifiers # QuantifiersOf(s) THEN <<F("QuantifiersPrefixOrder", "")>> ELSE <<>>)
  \o (IF c.roundtrip # s THEN <<F("EncodingRoundTrip", "")>> ELSE <<>>)
  \* the published attributes of every RESULT of a substitution / instantiation, and of its sub-sentences, are those
  \* obtained by walking that result
  \o (IF \E j \in 1..Len(c.derived) : LET x == c.derived[j] IN
            \/ SeqToSet(x.constants) # ConstantsOf(x.s) \/ Len(x.constants) # Cardinality(ConstantsOf(x.s))
            \/ SeqToSet(x.variables) # VariablesOf(x.s) \/ Len(x.variables) # Cardinality(VariablesOf(x.s))
            \/ x.quantifiers # QuantifiersOf(x.s) \/ x.operators # OperatorsOf(x.s)
      THEN <<F("DerivedAttributesOfResults", "")>> ELSE <<>>)

VARIABLES i, bad
B == INSTANCE Batch
Spec == B!BSpec
Publish == B!BPublish
Post == B!BPost
GenSpec == i = 0 /\ bad = <<>> /\ [][FALSE]_<<i, bad>>
=============================================================================
