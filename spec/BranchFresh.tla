---------------------------- MODULE BranchFresh ----------------------------
(***************************************************************************)
(* C06, model checking of the design: all histories of appends and copies  *)
(* (BranchFreshCore.tla holds the model functions and the contract).       *)
(***************************************************************************)
EXTENDS BranchFreshCore

(* ---- the design as a transition system ---- *)
CONSTANTS MaxBranches, MaxDepth
VARIABLES brs, depth, lastop, prev
vars == <<brs, depth, lastop, prev>>
Init == brs = <<Empty>> /\ depth = 0 /\ lastop = [op |-> "", b |-> 0, k |-> 0] /\ prev = <<Empty>>
Next == /\ depth < MaxDepth
        /\ \E op \in Ops(Len(brs)) :
             /\ (op.op = "copy" => Len(brs) < MaxBranches)
             /\ brs' = ApplyOp(brs, op)
             /\ lastop' = op
             /\ prev' = brs
        /\ depth' = depth + 1
Spec == Init /\ [][Next]_vars
InvFresh == Fresh(brs)
InvCopyIndependent == lastop.op = "" \/ CopyIndependent(prev, brs, lastop)
=============================================================================
