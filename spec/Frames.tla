------------------------------- MODULE Frames -------------------------------
(***************************************************************************)
(* Frame conditions of the modal logics: the closure a frame class        *)
(* requires of an access relation (T: reflexive, S4: reflexive-transitive, *)
(* S5: equivalence; D: serial -- not a closure operator, a successor is    *)
(* added where missing).  FrameOKSet (the class predicates) is in          *)
(* Semantics.tla.                                                          *)
(***************************************************************************)
EXTENDS Naturals, FiniteSets

RECURSIVE TC(_)
TC(R) == LET R3 == R \cup {<<pq[1][1], pq[2][2]>> : pq \in {pq \in R \X R : pq[1][2] = pq[2][1]}}
         IN IF R3 = R THEN R ELSE TC(R3)

Id(W) == {<<w, w>> : w \in W}
FrameClosure(cls, W, R) ==
  CASE cls = "reflexive"   -> R \cup Id(W)
    [] cls = "preorder"    -> TC(R \cup Id(W))
    [] cls = "equivalence" -> TC(R \cup {<<p[2], p[1]>> : p \in R} \cup Id(W))
    [] cls = "serial"      -> R \cup {<<w, w>> : w \in {w \in W : ~\E p \in R : p[1] = w}}
    [] OTHER -> R

SuccR(R, w) == {p[2] : p \in {p \in R : p[1] = w}}

=============================================================================
