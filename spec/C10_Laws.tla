------------------------------ MODULE C10_Laws ------------------------------
(***************************************************************************)
(* C10: provability obeys the structural laws of a consequence relation.   *)
(* Generator: for every base argument (from the corpus) the related        *)
(* arguments are built HERE, with the spec's own substitution:             *)
(*    refl    Gamma, phi |- phi          (phi = the conclusion, and each   *)
(*                                        premise as conclusion)           *)
(*    weak    Gamma, psi |- phi          for psi in a small pool           *)
(*    rename  rho(Gamma |- phi)          for injective rho over letters,   *)
(*                                        constants, predicates, variables *)
(* Validator: the laws over the recorded verdict map of each family.       *)
(***************************************************************************)
EXTENDS Consequence, SequencesExt, Json, IOUtils

Base == ndJsonDeserialize(IOEnv.BASE)

Swap01 == (0 :> 1) @@ (1 :> 0)
Rot012 == (0 :> 1) @@ (1 :> 2) @@ (2 :> 0)
Up1    == (0 :> 3) @@ (1 :> 0) @@ (3 :> 1)
IdF    == <<>>
Rhos == <<[atoms |-> Swap01, consts |-> IdF, preds |-> IdF, vars |-> IdF],
          [atoms |-> Rot012, consts |-> Swap01, preds |-> IdF, vars |-> IdF],
          [atoms |-> IdF, consts |-> Rot012, preds |-> Swap01, vars |-> Swap01],
          [atoms |-> Up1, consts |-> Up1, preds |-> IdF, vars |-> Rot012],
          [atoms |-> IdF, consts |-> Swap01, preds |-> IdF, vars |-> IdF]>>
ASSUME \A k \in 1..Len(Rhos) : Injective(Rhos[k].atoms) /\ Injective(Rhos[k].consts)
                                /\ Injective(Rhos[k].preds) /\ Injective(Rhos[k].vars)

Pool(arg) == <<<<"A", 4, 0>>, <<"O", "Negation", <<arg.conc>>>>, <<"O", "Negation", <<<<"A", 0, 0>>>>>>,
               <<"P", <<0, 0, 1>>, <<<<"c", 1, 0>>>>>>,
               <<"O", "Necessity", <<<<"O", "Necessity", <<<<"A", 3, 0>>>>>>>>>>,
               <<"O", "Possibility", <<<<"A", 3, 0>>>>>>>>

Family(b) ==
  LET arg == b.arg IN
  <<[rel |-> "base", k |-> 0, arg |-> arg]>>
  \o <<[rel |-> "refl", k |-> 0, arg |-> [prems |-> Append(arg.prems, arg.conc), conc |-> arg.conc]]>>
  \o [j \in 1..Len(arg.prems) |-> [rel |-> "refl", k |-> j, arg |-> [prems |-> arg.prems, conc |-> arg.prems[j]]]]
  \* reflexivity with a heavily repeated premise
  \o <<[rel |-> "refl", k |-> 100, arg |-> [prems |-> [j \in 1..8 |-> arg.conc], conc |-> arg.conc]]>>
  \o [j \in 1..Len(Pool(arg)) |-> [rel |-> "weak", k |-> j, arg |-> [prems |-> Append(arg.prems, Pool(arg)[j]), conc |-> arg.conc]]]
  \o [j \in 1..Len(Pool(arg)) |-> [rel |-> "weakfront", k |-> j, arg |-> [prems |-> <<Pool(arg)[j]>> \o arg.prems, conc |-> arg.conc]]]
  \o [j \in 1..Len(Rhos) |-> [rel |-> "rename", k |-> j, arg |-> RenameArg(Rhos[j], arg)]]

GenPost == LET out == [j \in 1..Len(Base) |-> [id |-> Base[j].id, logic |-> Base[j].logic, members |-> Family(Base[j])]]
           IN /\ TLCSet(2, 0)
              /\ PrintT(<<"GENERATED", Len(out)>>)
              /\ ndJsonSerialize(IOEnv.OUT, out)

Cases == ndJsonDeserialize(IOEnv.CASES)

\* c.members[j] = [rel, k, argstr, outcome, rules, witness]
Failures(c) ==
  LET base == c.members[1]
      F(m, clause) == [id |-> c.id, logic |-> c.logic, clause |-> clause, rel |-> m.rel, k |-> m.k,
                       base |-> base.argstr, argstr |-> m.argstr, base_outcome |-> base.outcome, outcome |-> m.outcome,
                       rules |-> m.rules \o base.rules, raised |-> m.raised]
      bad(m) == IF m.outcome = "raise" THEN "Raised"
                ELSE IF m.rel = "refl" /\ m.outcome = "invalid" THEN "Reflexive"
                ELSE IF m.rel \in {"weak", "weakfront"} /\ base.outcome = "valid" /\ m.outcome = "invalid" THEN "Monotone"
                ELSE IF m.rel = "rename" /\ IsVerdict(m.outcome) /\ IsVerdict(base.outcome) /\ m.outcome # base.outcome
                     THEN "RenamingInvariant"
                ELSE ""
      idx == {j \in 1..Len(c.members) : bad(c.members[j]) # ""}
  IN [j \in 1..Cardinality(idx) |->
        LET q == SetToSeq(idx)[j] IN F(c.members[q], bad(c.members[q]))]

VARIABLES i, bad
B == INSTANCE Batch
Spec == B!BSpec
Publish == B!BPublish
Post == B!BPost
GenSpec == i = 0 /\ bad = <<>> /\ [][FALSE]_<<i, bad>>
=============================================================================
