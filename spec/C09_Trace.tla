----------------------------- MODULE C09_Trace -----------------------------
(***************************************************************************)
(* C09: the verdict does not depend on how the proof is searched.          *)
(* Events = recorded runs (logic, argument, options, driver mode, order    *)
(* seed, premise permutation / duplication).  `Raise` is not an action:    *)
(* a run that raised is rejected.  Every run of the same key (logic,       *)
(* conclusion, premise SET) must fall into one outcome class.              *)
(***************************************************************************)
EXTENDS Consequence, Json, IOUtils

Runs == ndJsonDeserialize(IOEnv.CASES)

VARIABLES l, verdict, first, bad
vars == <<l, verdict, first, bad>>
Init == l = 1 /\ verdict = <<>> /\ first = <<>> /\ bad = <<>>
Ev == Runs[l]
Next ==
  /\ l <= Len(Runs)
  /\ l' = l + 1
  /\ LET key == KeyOf(Ev.logic, Ev.arg)
         F(clause, other) == [id |-> Ev.id, logic |-> Ev.logic, argstr |-> Ev.argstr, clause |-> clause, outcome |-> Ev.outcome,
                              g |-> Ev.g, r |-> Ev.r, mode |-> Ev.mode, order |-> Ev.order, raised |-> Ev.raised,
                              rules |-> Ev.rules, other |-> other]
     IN IF Ev.outcome = "raise"
        THEN bad' = Append(bad, F("Raised", "")) /\ UNCHANGED <<verdict, first>>
        ELSE IF Conflicts(verdict, key, Ev.outcome)
        THEN bad' = Append(bad, F("OneOutcomeClass", first[key])) /\ UNCHANGED <<verdict, first>>
        ELSE /\ verdict' = Enter(verdict, key, Ev.outcome)
             /\ first' = IF IsVerdict(Ev.outcome) /\ key \notin DOMAIN first
                         THEN [k \in DOMAIN first \cup {key} |-> IF k = key THEN Ev.id ELSE first[k]] ELSE first
             /\ UNCHANGED bad
Spec == Init /\ [][Next]_vars
\* the law, as an invariant of every prefix of the recorded history
OneOutcomeClass == \A k \in DOMAIN verdict : IsVerdict(verdict[k])
Done == l > Len(Runs)
Publish == Done => TLCSet(1, bad)
Post == JsonSerialize(IOEnv.OUT, [n |-> Len(Runs), bad |-> TLCGet(1)])
=============================================================================
