---------------------------- MODULE BranchFreshCore------------------------
(***************************************************************************)
(* C06: new constants and new worlds are always fresh.                     *)
(*                                                                         *)
(* Model layer: what Branch.append / Branch.copy do to the four pieces of   *)
(* state that matter (constants seen, worlds seen, the constant offered as *)
(* new, the world offered as new).  Constants and worlds are naturals      *)
(* (constant index k = the k-th constant in the library's order).          *)
(* Contract layer: Fresh, CopyIndependent.                                 *)
(***************************************************************************)
EXTENDS Naturals, Integers, Sequences, FiniteSets, FiniteSetsExt, TLC

\* a node as far as freshness is concerned: the constants and worlds it mentions
\* node kinds (shared with the driver): [cs |-> set of constant indexes, ws |-> set of worlds]
Kinds == <<[cs |-> {0}, ws |-> {}], [cs |-> {1}, ws |-> {}], [cs |-> {2}, ws |-> {}],
           [cs |-> {0, 1}, ws |-> {}], [cs |-> {1, 2}, ws |-> {}], [cs |-> {0, 2}, ws |-> {}],
           [cs |-> {}, ws |-> {0}], [cs |-> {}, ws |-> {2}], [cs |-> {1}, ws |-> {1}],
           [cs |-> {}, ws |-> {0, 1}], [cs |-> {}, ws |-> {1, 2}],
           [cs |-> {0, 2}, ws |-> {}], [cs |-> {0, 1}, ws |-> {2}]>>     \* 12, 13: binary compounds (constants on both sides)

Empty == [cs |-> {}, ws |-> {}, offerC |-> 0, offerW |-> 0]

RECURSIVE Skip(_, _)
Skip(c, S) == IF c \in S THEN Skip(c + 1, S) ELSE c

\* Branch.append (as repaired): the candidate moves only when the arriving sentence mentions it
AppendB(b, k) ==
  LET cs2 == b.cs \cup k.cs
      ws2 == b.ws \cup k.ws
  IN [cs |-> cs2, ws |-> ws2,
      offerC |-> IF b.offerC \in k.cs THEN Skip(Max(k.cs) + 1, cs2) ELSE b.offerC,
      offerW |-> IF k.ws # {} /\ Max(k.ws) >= b.offerW THEN Max(k.ws) + 1 ELSE b.offerW]

\* op = [op |-> "append", b |-> branch number (0-based), k |-> kind number (1-based)] | [op |-> "copy", b |-> n, k |-> 0]
ApplyOp(brs, op) ==
  IF op.op = "copy" THEN Append(brs, brs[op.b + 1])
  ELSE [brs EXCEPT ![op.b + 1] = AppendB(brs[op.b + 1], Kinds[op.k])]

Ops(n) == {[op |-> "append", b |-> b, k |-> k] : b \in 0..(n - 1), k \in 1..Len(Kinds)}
          \cup {[op |-> "copy", b |-> b, k |-> 0] : b \in 0..(n - 1)}

(* ---- contract ---- *)
FreshB(b) == b.offerC \notin b.cs /\ b.offerW \notin b.ws /\ \A w \in b.ws : b.offerW > w
Fresh(brs) == \A j \in 1..Len(brs) : FreshB(brs[j])
\* an operation on one branch changes no other branch; a copy starts equal to its source
CopyIndependent(a, b, op) ==
  /\ \A j \in 1..Len(a) : j # op.b + 1 => b[j] = a[j]
  /\ (op.op = "copy" => Len(b) = Len(a) + 1 /\ b[Len(b)] = a[op.b + 1] /\ b[op.b + 1] = a[op.b + 1])
  /\ (op.op = "append" => Len(b) = Len(a))

=============================================================================
