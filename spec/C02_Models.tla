----------------------------- MODULE C02_Models -----------------------------
(***************************************************************************)
(* C02: an 'invalid' verdict comes with a genuine countermodel.            *)
(* For every open branch without a limit flag of a completed tableau, the  *)
(* structure the library's model builder produced (exported through its    *)
(* public attributes) must, under the SPEC's evaluator,                    *)
(*   - satisfy every node of the branch            (NodeSatisfied)         *)
(*   - belong to the logic's frame class           (FrameClass)            *)
(*   - be a counter-model of the argument          (IsCountermodel)        *)
(* and the library's own countermodel test must agree (LibraryAgrees).     *)
(* Unsatisfied nodes name their shape so that saturation gaps and value    *)
(* disagreements are distinguished.                                        *)
(***************************************************************************)
EXTENDS Logics, Frames, SequencesExt, Json, IOUtils

Cases == ndJsonDeserialize(IOEnv.CASES)
SeqToSet(q) == {q[j] : j \in 1..Len(q)}

Shape(n) ==
  IF n.k # "s" THEN n.k
  ELSE LET s == n.s
           neg == s[1] = "O" /\ s[2] = "Negation"
           core == IF neg THEN s[3][1] ELSE s
           sym == IF core[1] = "O" THEN core[2] ELSE IF core[1] = "Q" THEN core[2] ELSE core[1]
       IN sym \o (IF neg THEN ":neg" ELSE "") \o ":" \o n.d

(* ---- root-cause attribution: rule instances the branch calls for but lacks ---- *)
IsNeg(s) == s[1] = "O" /\ s[2] = "Negation"
CoreS(s) == IF IsNeg(s) THEN s[3][1] ELSE s
\* universal-type node: every accessible world / every constant must get an instance
UnivModal(n) ==
  n.k = "s" /\ LET s == n.s  co == CoreS(s) IN
    co[1] = "O" /\ co[2] \in ModalOps /\
    LET nec == (co[2] = "Necessity") = ~IsNeg(s)          \* []A or ~<>A
    IN IF n.d = "-" THEN ~nec ELSE nec
UnivQuant(n) ==
  n.k = "s" /\ LET s == n.s  co == CoreS(s) IN
    co[1] = "Q" /\
    LET uni == (co[2] = "Universal") = ~IsNeg(s)
    IN IF n.d = "-" THEN ~uni ELSE uni
Mentions(nodes, w, sents) == \E j \in 1..Len(nodes) : nodes[j].k = "s" /\ nodes[j].w = w /\ CoreS(nodes[j].s) \in sents
AccessOn(nodes) == {<<nodes[j].w1, nodes[j].w2>> : j \in {j \in 1..Len(nodes) : nodes[j].k = "a"}}
RECURSIVE ConstsOfS(_)
ConstsOfS(s) ==
  CASE s[1] = "A" -> {}
    [] s[1] = "P" -> {s[3][j] : j \in {j \in 1..Len(s[3]) : s[3][j][1] = "c"}}
    [] s[1] = "Q" -> ConstsOfS(s[4])
    [] OTHER -> UNION {ConstsOfS(s[3][j]) : j \in 1..Len(s[3])}
ConstsOn(nodes) == UNION {IF nodes[j].k = "s" THEN ConstsOfS(nodes[j].s) ELSE {} : j \in 1..Len(nodes)}
WorldsOn(nodes) == UNION {CASE nodes[j].k = "s" -> (IF nodes[j].w >= 0 THEN {nodes[j].w} ELSE {})
                            [] nodes[j].k = "a" -> {nodes[j].w1, nodes[j].w2} [] OTHER -> {} : j \in 1..Len(nodes)}
Gap(L, nodes) ==
  IF \E j \in 1..Len(nodes) : UnivModal(nodes[j]) /\
        \E p \in AccessOn(nodes) : p[1] = nodes[j].w /\
           ~Mentions(nodes, p[2], {CoreS(CoreS(nodes[j].s)[3][1])})
  THEN "modal-instance-missing"
  ELSE IF \E j \in 1..Len(nodes) : UnivQuant(nodes[j]) /\
        \E a \in ConstsOn(nodes) :
           LET q == CoreS(nodes[j].s) IN ~Mentions(nodes, nodes[j].w, {CoreS(Sub(q[4], a, q[3]))})
  THEN "quantifier-instance-missing"
  ELSE IF L.frame = "serial" /\ \E w \in WorldsOn(nodes) : ~\E p \in AccessOn(nodes) : p[1] = w
  THEN "serial-successor-missing"
  ELSE ""

ModelFailures(c, m) ==
  LET L == Logic(c.logic)
      M == [C |-> m.C, R |-> m.R, val |-> m.val]
      W == SeqToSet(m.W)
      unsat == {j \in 1..Len(m.nodes) : ~SatNode(L, M, m.nodes[j])}
      F(clause, node, shape) == [id |-> c.id, logic |-> c.logic, argstr |-> c.argstr, branch |-> m.branch,
                                 clause |-> clause, node |-> node, shape |-> shape, rules |-> c.rules,
                                 gap |-> Gap(L, m.nodes),
                                 mixes |-> \E s \in SeqToSet(c.arg.prems) \cup {c.arg.conc} : MixesNB(L, M, s, 0)]
  IN IF m.quit = 1 THEN <<>>
     ELSE (IF unsat # {}
           THEN LET j == CHOOSE j \in unsat : \A k \in unsat : j <= k IN <<F("NodeSatisfied", j - 1, Shape(m.nodes[j]))>>
           ELSE <<>>)
          \o (IF L.modal /\ ~FrameOKSet(L.frame, W, SeqToSet(m.R)) THEN <<F("FrameClass", -1, "")>> ELSE <<>>)
          \o (IF ~IsCountermodel(L, M, c.arg) THEN <<F("IsCountermodel", -1, "")>> ELSE <<>>)
          \o (IF m.is_countermodel # 1 THEN <<F("LibraryAgrees", -1, "")>> ELSE <<>>)

\* root cause of a completed open branch whose literals are classically unsatisfiable: a negated identity ~(u = v)
\* although u = v follows from the positive identities at that world by symmetry / transitivity (the identity rule
\* substitutes into positive predications only and never turns a = b around)
IdP2 == <<-1, 0, 2>>
IdentitySymmetryGap(nodes) ==
  \E j \in 1..Len(nodes) :
     LET n == nodes[j] IN
     n.k = "s" /\ IsNeg(n.s) /\ n.s[3][1][1] = "P" /\ n.s[3][1][2] = IdP2 /\
     LET pos == {nodes[k].s[3] : k \in {k \in 1..Len(nodes) : nodes[k].k = "s" /\ nodes[k].w = n.w /\ nodes[k].s[1] = "P"
                                                              /\ nodes[k].s[2] = IdP2}}
         E == TC({<<t[1], t[2]>> : t \in pos} \cup {<<t[2], t[1]>> : t \in pos})
     IN <<n.s[3][1][3][1], n.s[3][1][3][2]>> \in E /\ n.s[3][1][3] \notin pos

Failures(c) ==
  IF c.raised # ""
  THEN <<[id |-> c.id, logic |-> c.logic, argstr |-> c.argstr, branch |-> -1, clause |-> "RaisedInsteadOfCountermodel",
          node |-> -1, shape |-> c.raised, rules |-> c.rules,
          gap |-> IF \E b \in 1..Len(c.open_nodes) : IdentitySymmetryGap(c.open_nodes[b]) THEN "identity-symmetry" ELSE "",
          mixes |-> FALSE]>>
  ELSE IF c.nmodels_expected # Len(c.models)
  THEN <<[id |-> c.id, logic |-> c.logic, argstr |-> c.argstr, branch |-> -1, clause |-> "ModelPerOpenBranch",
          node |-> -1, shape |-> "", rules |-> c.rules, gap |-> "", mixes |-> FALSE]>>
  ELSE FlattenSeq([j \in 1..Len(c.models) |-> ModelFailures(c, c.models[j])])

VARIABLES i, bad
B == INSTANCE Batch
Spec == B!BSpec
Publish == B!BPublish
Post == B!BPost
=============================================================================
