------------------------------ MODULE TraceMC ------------------------------
(***************************************************************************)
(* Trace validation of REAL proofs against the operational model of the    *)
(* calculus: every step the prover took must be a step the rule-table      *)
(* model allows on the branch as it was.                                   *)
(*                                                                         *)
(* The rule table is the one the all-schedules models use (extracted from  *)
(* the real rule objects by the C04 driver, each row validated sound and   *)
(* invertible by C04_Exact).  C04 probes every rule on a FRESH branch; this *)
(* module checks that IN CONTEXT -- on the branches of real proofs, with   *)
(* other nodes, constants and worlds around -- the prover does nothing     *)
(* else:                                                                   *)
(*   operator step     the added groups are the table's groups for the     *)
(*                     target's shape, instantiated with its operands, at  *)
(*                     its world                                           *)
(*   witness step      (ticking quantifier rule / possibility-type modal   *)
(*                     rule) the groups are the table's, with ONE constant *)
(*                     / world that occurs nowhere on the branch           *)
(*   universal step    the group is the table's instance for a constant    *)
(*                     that IS on the branch (or the first constant when   *)
(*                     there is none) / for a world the target's world     *)
(*                     accesses on the branch                              *)
(*   frame step        the added access pair is one the frame class of the *)
(*                     logic calls for, given the pairs on the branch      *)
(*   identity step     the added predication is a one-position             *)
(*                     substitution along an identity on the branch, same  *)
(*                     world                                               *)
(*   closure step      the branch held a closing pair (C05's conditions)   *)
(* Sound rules + "every real step is a table step" is the induction that   *)
(* makes a `valid' verdict sound (C01); the witness clauses are C06's      *)
(* "every rule that introduces a witness uses a fresh item".               *)
(*                                                                         *)
(* One TLC run validates the proofs of ONE logic (IOEnv.RULES holds that   *)
(* logic's rows).  A case is one proof: [id, logic, arg, steps], a step is *)
(* [kind, rule, n (target node), via (second target node, e.g. the access  *)
(* node), adds (groups of nodes), pre (nodes of the branch before)].       *)
(***************************************************************************)
EXTENDS Logics, Frames, SequencesExt, FiniteSetsExt, Json, IOUtils

Table == ndJsonDeserialize(IOEnv.RULES)
Cases == ndJsonDeserialize(IOEnv.CASES)

SN(s, d, w) == [k |-> "s", s |-> s, d |-> d, w |-> w, w1 |-> -1, w2 |-> -1]
AN(u, v)    == [k |-> "a", s |-> <<>>, d |-> "", w |-> -1, w1 |-> u, w2 |-> v]
\* recorded node -> model node (flag nodes are not part of the calculus)
Norm(x) == IF x.k = "s" THEN SN(x.s, x.d, x.w) ELSE AN(x.w1, x.w2)
NodeSet(q) == {Norm(q[j]) : j \in {j \in 1..Len(q) : q[j].k \in {"s", "a"}}}

(* ---- shapes and table lookup ---- *)
IsNegS(s) == s[1] = "O" /\ s[2] = "Negation"
OpShape(s) == IF s[1] # "O" THEN <<>>
              ELSE IF ~IsNegS(s) THEN <<s[2], 0>>
              ELSE IF s[3][1][1] = "O" THEN <<s[3][1][2], 1>> ELSE <<>>
QShape(s) == IF s[1] = "Q" THEN <<s[2], 0>>
             ELSE IF IsNegS(s) /\ s[3][1][1] = "Q" THEN <<s[3][1][2], 1>> ELSE <<>>
QSent(s) == IF s[1] = "Q" THEN s ELSE s[3][1]
Operands(s) == IF IsNegS(s) THEN s[3][1][3] ELSE s[3]
IsModalShape(sh) == sh # <<>> /\ sh[1] \in ModalOps
Lookup1(L, kind, sh, d, k) ==
  LET I == {j \in 1..Len(Table) : Table[j].logic = L.name /\ Table[j].kind = kind /\ Table[j].sym = sh[1]
                                   /\ Table[j].neg = sh[2] /\ Table[j].d = d /\ Table[j].k = k}
  IN IF I = {} THEN <<>> ELSE <<Table[CHOOSE j \in I : TRUE]>>
\* a shape the logic does not interpret (quantified in a propositional logic, modal in a non-modal one) has no rule
OpRule(L, n) == IF n.k # "s" \/ OpShape(n.s) = <<>> \/ IsModalShape(OpShape(n.s)) THEN <<>>
                ELSE Lookup1(L, "op", OpShape(n.s), n.d, 0)
ModalRule(L, n) == IF n.k # "s" \/ ~L.modal \/ ~IsModalShape(OpShape(n.s)) THEN <<>>
                   ELSE Lookup1(L, "modal", OpShape(n.s), n.d, 1)
QRule(L, n) == IF n.k # "s" \/ ~L.quantified \/ QShape(n.s) = <<>> THEN <<>>
               ELSE Lookup1(L, "quant", QShape(n.s), n.d, 1)

RECURSIVE SubstAtoms(_, _)
SubstAtoms(t, ops) == IF t[1] = "A" THEN ops[t[2] + 1]
                      ELSE <<"O", t[2], [j \in 1..Len(t[3]) |-> SubstAtoms(t[3][j], ops)]>>
\* the groups (a set of node sets) an operator rule adds for node n
SentRows(ext) == SelectSeq(ext, LAMBDA x : x.k = "s")
OpGroups(L, n) ==
  LET r == OpRule(L, n)[1]  ops == Operands(n.s)
  IN {{SN(SubstAtoms(SentRows(r.exts[g])[j].s, ops), SentRows(r.exts[g])[j].d, n.w) : j \in 1..Len(SentRows(r.exts[g]))}
      : g \in 1..Len(r.exts)}

\* quantifier templates (see TableauFOMC): a = present constant, b = made-up constant, x = bound variable, F = body
tA == <<"c", 0, 0>>
tB == <<"c", 1, 0>>
tX == <<"v", 0, 0>>
tF == <<0, 0, 1>>
RECURSIVE TSub(_, _, _, _, _)
TSub(t, body, v, ca, cb) ==
  CASE t[1] = "P" -> IF t[2] # tF THEN t
                     ELSE IF t[3][1] = tX THEN body
                     ELSE IF t[3][1] = tA THEN Sub(body, ca, v)
                     ELSE Sub(body, cb, v)
    [] t[1] = "Q" -> <<"Q", t[2], v, TSub(t[4], body, v, ca, cb)>>
    [] t[1] = "A" -> t
    [] OTHER -> <<"O", t[2], [j \in 1..Len(t[3]) |-> TSub(t[3][j], body, v, ca, cb)]>>
RECURSIVE Mentions(_, _)
Mentions(t, p) == CASE t[1] = "P" -> \E j \in 1..Len(t[3]) : t[3][j] = p
                    [] t[1] = "Q" -> Mentions(t[4], p)
                    [] t[1] = "A" -> FALSE
                    [] OTHER -> \E j \in 1..Len(t[3]) : Mentions(t[3][j], p)
MakesConstant(r) == \E g \in 1..Len(r.exts) : \E j \in 1..Len(r.exts[g]) : r.exts[g][j].k = "s" /\ Mentions(r.exts[g][j].s, tB)
UsesPresent(r) == \E g \in 1..Len(r.exts) : \E j \in 1..Len(r.exts[g]) : r.exts[g][j].k = "s" /\ Mentions(r.exts[g][j].s, tA)
QGroups(L, n, ca, cb) ==
  LET r == QRule(L, n)[1]  q == QSent(n.s)
  IN {{SN(TSub(SentRows(r.exts[g])[j].s, q[4], q[3], ca, cb), SentRows(r.exts[g])[j].d, n.w) : j \in 1..Len(SentRows(r.exts[g]))}
      : g \in 1..Len(r.exts)}

\* modal templates (see TableauModalMC): recorded with ONE accessible world, 0R1 (plus whatever the frame rules of the
\* logic add: those access nodes are not part of the modal rule's own step).  A rule that ticked is witness / translation
\* type: a group that holds an access node from world 0 to a world > 1 opens a NEW world (template world tw) and puts its
\* sentence nodes of that world there, nodes at template world 0 stay at the target's world.  A rule that did not tick is
\* universal type: its sentence nodes at template world 1 are the instance for an accessible world.
NewWOf(ext) == {ext[j].w2 : j \in {j \in 1..Len(ext) : ext[j].k = "a" /\ ext[j].w1 = 0 /\ ext[j].w2 > 1}}
OpensWorld(r) == \E g \in 1..Len(r.exts) : NewWOf(r.exts[g]) # {}
MGroups(r, ops, w2, w0) ==
  {LET ext == r.exts[g]
       tw == IF NewWOf(ext) = {} THEN -7 ELSE CHOOSE w \in NewWOf(ext) : TRUE
       rows == SentRows(ext)
   IN {SN(SubstAtoms(rows[j].s, ops), rows[j].d, IF rows[j].w = tw THEN w2 ELSE w0) : j \in {j \in 1..Len(rows) : rows[j].w \in {0, tw}}}
      \cup (IF tw = -7 THEN {} ELSE {AN(w0, w2)})
   : g \in 1..Len(r.exts)}
UInst(r, ops, w) ==
  {SN(SubstAtoms(x.s, ops), x.d, w) : x \in {SentRows(r.exts[1])[j] : j \in {j \in 1..Len(SentRows(r.exts[1])) : SentRows(r.exts[1])[j].w = 1}}}

(* ---- branch geometry ---- *)
RECURSIVE ConstsIn(_)
ConstsIn(s) == CASE s[1] = "A" -> {}
                 [] s[1] = "P" -> {s[3][j] : j \in {j \in 1..Len(s[3]) : s[3][j][1] = "c"}}
                 [] s[1] = "Q" -> ConstsIn(s[4])
                 [] OTHER -> UNION {ConstsIn(s[3][j]) : j \in 1..Len(s[3])}
ConstsOf(nodes) == UNION {ConstsIn(n.s) : n \in {n \in nodes : n.k = "s"}}
WorldsOf(nodes) == UNION {IF n.k = "s" THEN (IF n.w < 0 THEN {} ELSE {n.w}) ELSE {n.w1, n.w2} : n \in nodes}
AccessOf(nodes) == {<<n.w1, n.w2>> : n \in {n \in nodes : n.k = "a"}}
FirstConst == <<"c", 0, 0>>

(* ---- closure (C05-validated conditions, incl. the classical identity / existence closures) ---- *)
IdP == <<-1, 0, 2>>
ExP == <<-2, 0, 1>>
Closable(L, nodes) ==
  LET Gluts == "B" \in ValsOf(L.base)
      Gaps == "N" \in ValsOf(L.base)
  IN \E n \in {n \in nodes : n.k = "s"} :
       IF L.style = "plain"
       THEN \/ SN(NegS(n.s), "", n.w) \in nodes
            \/ (IsNegS(n.s) /\ n.s[3][1][1] = "P" /\ n.s[3][1][2] = IdP /\ n.s[3][1][3][1] = n.s[3][1][3][2])
            \/ (IsNegS(n.s) /\ n.s[3][1][1] = "P" /\ n.s[3][1][2] = ExP)
       ELSE \/ (n.d = "+" /\ SN(n.s, "-", n.w) \in nodes)
            \/ (~Gluts /\ n.d = "+" /\ SN(NegS(n.s), "+", n.w) \in nodes)
            \/ (~Gaps /\ n.d = "-" /\ SN(NegS(n.s), "-", n.w) \in nodes)

(* ---- one step ---- *)
\* "" if the step is a model step, else the name of the clause it breaks
StepFail(L, st) ==
  LET pre == NodeSet(st.pre)
      groups == {NodeSet(st.adds[g]) : g \in 1..Len(st.adds)}
      n == IF st.n.k \in {"s", "a"} THEN Norm(st.n) ELSE [k |-> ""]
      added == UNION groups
      newC == ConstsOf(added) \ ConstsOf(pre)
      newW == WorldsOf(added) \ WorldsOf(pre)
      R == AccessOf(pre)
  IN
  CASE st.kind = "closure" -> IF Closable(L, pre) THEN "" ELSE "ClosureWithoutClosingPair"
    [] st.kind = "quit" -> ""                       \* limits are not verdicts; their bookkeeping is C16's
    [] st.rule \in {"Reflexive", "Transitive", "Symmetric", "Serial"} ->
         IF Cardinality(groups) # 1 \/ Cardinality(added) # 1 \/ (CHOOSE x \in added : TRUE).k # "a" THEN "FrameStepShape"
         ELSE LET p == CHOOSE x \in added : TRUE IN
              CASE st.rule = "Reflexive"  -> IF L.frame \in {"reflexive", "preorder", "equivalence"} /\ p.w1 = p.w2 /\ p.w1 \in WorldsOf(pre)
                                             THEN "" ELSE "FrameStepNotCalledFor"
                [] st.rule = "Transitive" -> IF L.frame \in {"preorder", "equivalence"} /\ \E x \in WorldsOf(pre) : <<p.w1, x>> \in R /\ <<x, p.w2>> \in R
                                             THEN "" ELSE "FrameStepNotCalledFor"
                [] st.rule = "Symmetric"  -> IF L.frame = "equivalence" /\ <<p.w2, p.w1>> \in R THEN "" ELSE "FrameStepNotCalledFor"
                [] OTHER                  -> IF L.frame # "serial" \/ p.w1 \notin WorldsOf(pre) THEN "FrameStepNotCalledFor"
                                             ELSE IF p.w2 \in WorldsOf(pre) THEN "WitnessWorldNotFresh"
                                             ELSE IF \E q \in R : q[1] = p.w1 THEN "FrameStepNotCalledFor" ELSE ""
    [] st.rule = "IdentityIndiscernability" ->
         IF Cardinality(groups) # 1 \/ Cardinality(added) # 1 THEN "IdentityStepShape"
         ELSE LET x == CHOOSE x \in added : TRUE IN
              IF x.k # "s" \/ x.s[1] # "P" THEN "IdentityStepShape"
              ELSE IF \E i \in {i \in pre : i.k = "s" /\ i.d = x.d /\ i.w = x.w /\ i.s[1] = "P" /\ i.s[2] = IdP} :
                      \E m \in {m \in pre : m.k = "s" /\ m.d = x.d /\ m.w = x.w /\ m.s[1] = "P" /\ m.s[2] = x.s[2]} :
                         \E j \in 1..Len(m.s[3]) :
                            \/ (m.s[3][j] = i.s[3][1] /\ x.s[3] = [m.s[3] EXCEPT ![j] = i.s[3][2]])
                            \/ (m.s[3][j] = i.s[3][2] /\ x.s[3] = [m.s[3] EXCEPT ![j] = i.s[3][1]])
                   THEN "" ELSE "IdentityStepNotASubstitution"
    [] n.k # "s" -> "UnmodelledStep"
    [] n \notin pre -> "TargetNotOnBranch"
    [] OpRule(L, n) # <<>> ->
         IF groups = OpGroups(L, n) THEN "" ELSE "OperatorStepNotInTable"
    [] QRule(L, n) # <<>> ->
         LET r == QRule(L, n)[1] IN
         IF r.ticked = 1
         THEN IF MakesConstant(r)
              THEN IF Cardinality(newC) # 1 THEN "WitnessConstantNotFresh"
                   ELSE LET cb == CHOOSE c \in newC : TRUE
                            present == IF UsesPresent(r) THEN ConstsOf(pre) ELSE {cb}
                        IN IF \E ca \in present : groups = QGroups(L, n, ca, cb) THEN "" ELSE "WitnessStepNotInTable"
              ELSE IF groups = QGroups(L, n, FirstConst, FirstConst) THEN "" ELSE "QuantifierStepNotInTable"
         ELSE LET targets == IF ConstsOf(pre) = {} THEN {FirstConst} ELSE ConstsOf(pre)
              IN IF \E c \in targets : groups = QGroups(L, n, c, c) THEN ""
                 ELSE IF newC # {} /\ ConstsOf(pre) # {} THEN "UniversalStepMakesUpConstant" ELSE "UniversalStepNotInTable"
    [] ModalRule(L, n) # <<>> ->
         LET r == ModalRule(L, n)[1]  ops == Operands(n.s) IN
         IF r.ticked = 1
         THEN IF OpensWorld(r)
              THEN IF Cardinality(newW) > 1 THEN "WitnessWorldNotFresh"
                   ELSE IF newW = {} THEN "WitnessWorldNotFresh"
                   ELSE LET w2 == CHOOSE w \in newW : TRUE IN
                        IF groups = MGroups(r, ops, w2, n.w) THEN "" ELSE "WitnessStepNotInTable"
              ELSE IF groups = MGroups(r, ops, -9, n.w) THEN "" ELSE "ModalStepNotInTable"
         ELSE IF \E p \in R : p[1] = n.w /\ groups = {UInst(r, ops, p[2])} THEN ""
              ELSE IF newW # {} THEN "UniversalStepMakesUpWorld" ELSE "UniversalStepNotInTable"
    [] OTHER -> "NoRuleForExpandedNode"

RECURSIVE Walk(_, _, _)
Walk(L, c, j) ==
  IF j > Len(c.steps) THEN <<>>
  ELSE LET f == StepFail(L, c.steps[j]) IN
       IF f = "" THEN Walk(L, c, j + 1)
       ELSE <<[id |-> c.id, logic |-> c.logic, argstr |-> c.argstr, clause |-> f, step |-> j, rule |-> c.steps[j].rule,
               detail |-> c.steps[j]]>>
Failures(c) == Walk(Logic(c.logic), c, 1)

VARIABLES i, bad
B == INSTANCE Batch
Spec == B!BSpec
Publish == B!BPublish
Post == B!BPost
=============================================================================
