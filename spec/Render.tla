------------------------------- MODULE Render -------------------------------
(***************************************************************************)
(* C19: every finished tableau renders, deterministically and faithfully.  *)
(* A case is one finished tableau (its branches as node records, each with *)
(* the text the lexical writer gives its sentence) and its renderings.     *)
(* The plain-text drawing is de-laid-out by the harness into root-to-leaf  *)
(* paths of node tokens <<sentence text, world, designation>> plus the     *)
(* number of closure marks on the path.                                    *)
(*   ExpectedBranchTokens(b)  what the property says the drawing contains  *)
(*   Faithful        bag of drawn paths = bag of expected branch paths     *)
(*   ClosureMarks    one mark per closed branch, none on open ones         *)
(*   Idempotent      rendering twice gives identical text                  *)
(*   NoRaise         every registered format x notation renders            *)
(***************************************************************************)
EXTENDS Naturals, Integers, Sequences, FiniteSets, SequencesExt, Json, IOUtils, TLC

Cases == ndJsonDeserialize(IOEnv.CASES)

WorldTok(n) == IF n.k = "s" /\ n.w >= 0 THEN ToString(n.w) ELSE ""
\* token of one node: <<text, world, designation>>
NodeToken(n) ==
  CASE n.k = "s" -> <<n.text, WorldTok(n), n.d>>
    [] n.k = "a" -> <<"w" \o ToString(n.w1) \o "Rw" \o ToString(n.w2), "", "">>
    [] OTHER     -> <<"", "", "">>                        \* quit flag: an empty cell

\* a branch: its nodes in order, the closure node is drawn as the mark, not as a cell
ExpectedBranchTokens(b) ==
  LET ns == SelectSeq(b.nodes, LAMBDA n : ~(n.k = "f" /\ n.flag = "closure"))
  IN [tokens |-> [j \in 1..Len(ns) |-> NodeToken(ns[j])], marks |-> IF b.closed = 1 THEN 1 ELSE 0]

Count(q, x) == Cardinality({j \in 1..Len(q) : q[j] = x})
SameBag(p, q) == Len(p) = Len(q) /\ \A j \in 1..Len(p) : Count(p, p[j]) = Count(q, p[j])

RenderFail(c, r) ==
  IF r.raised # "" THEN "NoRaise"
  ELSE IF r.same # 1 THEN "Idempotent"
  ELSE IF r.format # "text" THEN ""
  ELSE LET want == [j \in 1..Len(c.branches) |-> ExpectedBranchTokens(c.branches[j])]
           got == [j \in 1..Len(r.paths) |-> [tokens |-> r.paths[j].tokens, marks |-> r.paths[j].marks]]
       IN IF Len(got) # Len(want) THEN "OnePathPerBranch"
          ELSE IF \E j \in 1..Len(got) : got[j].marks > 1 THEN "ClosureMarks"
          ELSE IF ~SameBag([j \in 1..Len(got) |-> got[j].marks], [j \in 1..Len(want) |-> want[j].marks]) THEN "ClosureMarks"
          ELSE IF ~SameBag(got, want) THEN "Faithful"
          ELSE ""

Failures(c) ==
  LET badr == {j \in 1..Len(c.renders) : RenderFail(c, c.renders[j]) # ""}
      q == SetToSeq(badr)
  IN [j \in 1..Len(q) |-> [id |-> c.id, logic |-> c.logic, clause |-> RenderFail(c, c.renders[q[j]]),
                            format |-> c.renders[q[j]].format, notation |-> c.renders[q[j]].notation,
                            raised |-> c.renders[q[j]].raised]]

VARIABLES i, bad
B == INSTANCE Batch
Spec == B!BSpec
Publish == B!BPublish
Post == B!BPost
=============================================================================
