----------------------------- MODULE TableauMC -----------------------------
(***************************************************************************)
(* All schedules of the propositional tableau calculus of one logic        *)
(* (model layer of DESIGN.md 3, `TableauMC`).                              *)
(*                                                                         *)
(* The RULE TABLE is not written here: it is the table of extension groups *)
(* that the real rule objects of the logic produced for every operator     *)
(* shape (recorded by the C04 driver, over the operand atoms A = a0 and    *)
(* B = a1, which act as templates).  The CLOSURE conditions are the ones   *)
(* C05 validates against the code.  Next may apply ANY enabled expansion   *)
(* or closure of ANY open branch: this subsumes group/rank optimisation,   *)
(* hash order and build-vs-step.                                           *)
(*                                                                         *)
(* Checked on every reachable state of every schedule:                     *)
(*   SatPreserved   the valuations satisfying some open branch are exactly *)
(*                  those satisfying the trunk (soundness + completeness   *)
(*                  of every step, C01/C02/C04 lifted to branches)         *)
(*   VerdictExact   a terminal state is all-closed iff the argument is     *)
(*                  valid by truth tables (C03), hence one verdict in all  *)
(*                  schedules (C09)                                        *)
(*   Saturated      an open branch of a terminal state has no expandable   *)
(*                  node (C02)                                             *)
(*   Termination    <>Terminal under weak fairness (C03)                   *)
(***************************************************************************)
EXTENDS Logics, SequencesExt, FiniteSetsExt, Json, IOUtils

Table == ndJsonDeserialize(IOEnv.RULES)
Par == JsonDeserialize(IOEnv.PAR)                 \* [logic, args]
LName == Par.logic
L == Logic(LName)
Args == Par.args
Style == L.style
Base == L.base

AtomsIn(arg) == LET RECURSIVE A(_)
                    A(s) == IF s[1] = "A" THEN {s} ELSE UNION {A(s[3][j]) : j \in 1..Len(s[3])}
                IN UNION {A(s) : s \in {arg.prems[j] : j \in 1..Len(arg.prems)} \cup {arg.conc}}

Node(s, d) == [s |-> s, d |-> d]
Trunk(arg) == IF Style = "plain"
              THEN [j \in 1..Len(arg.prems) |-> Node(arg.prems[j], "")] \o <<Node(NegS(arg.conc), "")>>
              ELSE [j \in 1..Len(arg.prems) |-> Node(arg.prems[j], "+")] \o <<Node(arg.conc, "-")>>

(* ---- rule table lookup ---- *)
IsNegS(s) == s[1] = "O" /\ s[2] = "Negation"
\* the shape of a compound node: <<operator, negated>>; <<>> for literals
ShapeOf(s) == IF s[1] # "O" THEN <<>>
              ELSE IF ~IsNegS(s) THEN <<s[2], 0>>
              ELSE IF s[3][1][1] = "O" THEN <<s[3][1][2], 1>> ELSE <<>>
Operands(s) == IF IsNegS(s) THEN s[3][1][3] ELSE s[3]
RuleFor(n) == LET sh == ShapeOf(n.s)
                  I == {j \in 1..Len(Table) : Table[j].logic = LName /\ Table[j].kind = "op" /\ Table[j].sym = sh[1]
                                               /\ Table[j].neg = sh[2] /\ Table[j].d = n.d}
              IN IF sh = <<>> \/ I = {} THEN <<>> ELSE <<Table[CHOOSE j \in I : TRUE]>>
RECURSIVE SubstAtoms(_, _)
SubstAtoms(t, ops) == IF t[1] = "A" THEN ops[t[2] + 1]
                      ELSE <<"O", t[2], [j \in 1..Len(t[3]) |-> SubstAtoms(t[3][j], ops)]>>
Instances(n) == LET r == RuleFor(n)[1]
                    ops == Operands(n.s)
                IN [g \in 1..Len(r.exts) |-> [j \in 1..Len(r.exts[g]) |-> Node(SubstAtoms(r.exts[g][j].s, ops), r.exts[g][j].d)]]

(* ---- closure (the conditions validated by C05) ---- *)
\* Branches are SETS of nodes and the tableau is a SET of branches: schedules that differ only in the
\* order in which nodes/branches were produced are the same state (the order is incidental, see
\* DESIGN.md "model layer").
Gluts == "B" \in ValsOf(Base)
Gaps == "N" \in ValsOf(Base)
On(nodes, s, d) == Node(s, d) \in nodes
Closable(nodes) ==
  \E n \in nodes :
     IF Style = "plain" THEN On(nodes, NegS(n.s), "")
     ELSE \/ (n.d = "+" /\ On(nodes, n.s, "-"))
          \/ (~Gluts /\ n.d = "+" /\ On(nodes, NegS(n.s), "+"))
          \/ (~Gaps /\ n.d = "-" /\ On(nodes, NegS(n.s), "-"))

(* ---- semantics over valuations of the argument's letters ---- *)
RECURSIVE EvalV(_, _)
EvalV(v, s) == IF s[1] = "A" THEN v[s] ELSE Tab(Base, s[2], [j \in 1..Len(s[3]) |-> EvalV(v, s[3][j])])
SatV(v, n) == LET x == EvalV(v, n.s) IN
              IF n.d = "" THEN x = "T" ELSE IF n.d = "+" THEN x \in DesOf(Base) ELSE x \notin DesOf(Base)
Vals(arg) == [AtomsIn(arg) -> ValsOf(Base)]
SatSet(arg, nodes) == {v \in Vals(arg) : \A n \in nodes : SatV(v, n)}
TrunkSet(arg) == {Trunk(arg)[j] : j \in 1..Len(Trunk(arg))}

(* ---- the transition system ---- *)
VARIABLES arg, br
vars == <<arg, br>>

Init == /\ arg \in {Args[j] : j \in 1..Len(Args)}
        /\ br = {[nodes |-> TrunkSet(arg), ticked |-> {}, closed |-> FALSE]}

Expandable(b, n) == ~b.closed /\ n \in b.nodes \ b.ticked /\ RuleFor(n) # <<>>
Expand(b, n) ==
  /\ Expandable(b, n)
  /\ LET inst == Instances(n)
         mk(g) == [nodes |-> b.nodes \cup {inst[g][j] : j \in 1..Len(inst[g])}, ticked |-> b.ticked \cup {n}, closed |-> FALSE]
     IN br' = (br \ {b}) \cup {mk(g) : g \in 1..Len(inst)}
  /\ UNCHANGED arg
Close(b) == /\ ~b.closed /\ Closable(b.nodes)
            /\ br' = (br \ {b}) \cup {[b EXCEPT !.closed = TRUE]}
            /\ UNCHANGED arg
\* Reduction (sound for the invariants below, which are unions of per-branch facts): actions on different
\* branches commute exactly, so one canonical active branch is advanced at a time -- as the real scheduler
\* does, which takes the first open branch and tries the closure group first.  WITHIN a branch every
\* order of expansions (every tie-break) is explored.
Active == {b \in br : ~b.closed /\ (Closable(b.nodes) \/ \E n \in b.nodes : Expandable(b, n))}
Next == /\ Active # {}
        /\ LET b == CHOOSE b \in Active : TRUE IN
           IF Closable(b.nodes) THEN Close(b) ELSE \E n \in b.nodes : Expand(b, n)
Spec == Init /\ [][Next]_vars /\ WF_vars(Next)

Open == {b \in br : ~b.closed}
Terminal == \A b \in Open : ~Closable(b.nodes) /\ \A n \in b.nodes : ~Expandable(b, n)

OpenSat == UNION {SatSet(arg, b.nodes) : b \in Open}
SatPreserved == OpenSat = SatSet(arg, TrunkSet(arg))
VerdictExact == Terminal => ((Open = {}) <=> (SatSet(arg, TrunkSet(arg)) = {}))
\* a terminal open branch is downward saturated and has a model (completeness of the closure conditions)
Saturated == Terminal => \A b \in Open : SatSet(arg, b.nodes) # {}
Termination == <>Terminal
=============================================================================
