------------------------------- MODULE Batch -------------------------------
(***************************************************************************)
(* Batch validation skeleton (DESIGN.md 2.4).  The instantiating module   *)
(* defines Cases (a sequence) and Failures(case) (a sequence of failure   *)
(* records, empty if the case satisfies every clause).  One TLC state per *)
(* case; a failing case never hides the rest.  The verdicts are written   *)
(* as JSON to IOEnv.OUT by the POSTCONDITION (run with -workers 1).       *)
(***************************************************************************)
EXTENDS Naturals, Sequences, TLC, Json, IOUtils

CONSTANTS Cases, Failures(_)
VARIABLES i, bad
bvars == <<i, bad>>

BInit == i = 1 /\ bad = <<>>
BStep == /\ i <= Len(Cases)
         /\ i' = i + 1
         /\ bad' = bad \o Failures(Cases[i])
BDone == i > Len(Cases)
BSpec == BInit /\ [][BStep]_bvars
BPublish == BDone => TLCSet(1, bad)
BPost == JsonSerialize(IOEnv.OUT, [n |-> Len(Cases), bad |-> TLCGet(1)])
=============================================================================
