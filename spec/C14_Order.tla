----------------------------- MODULE C14_Order -----------------------------
(***************************************************************************)
(* C14: lexical items have value semantics.                                *)
(* Record kinds:                                                           *)
(*   "matrix"  items + recorded ==, <, <=, >, >=, hash, type rank, sorted  *)
(*   "rebuild" per item: re-encodings after ident / spec / copy / deepcopy *)
(*             / pickle, and whether attribute assignment raised           *)
(*   "history" construction histories replayed under a small cache:        *)
(*             every call returns the requested item                       *)
(***************************************************************************)
EXTENDS Naturals, Integers, Sequences, FiniteSets, SequencesExt, Json, IOUtils, TLC

Cases == ndJsonDeserialize(IOEnv.CASES)

MatrixFail(c) ==
  LET n == Len(c.items)
      I == 1..n
      same(i, j) == c.items[i] = c.items[j]
  IN IF \E i, j \in I : (c.eq[i][j] = 1) # same(i, j) THEN "EqualIffStructurallyIdentical"
     ELSE IF \E i, j \in I : c.eq[i][j] = 1 /\ c.hash[i] # c.hash[j] THEN "EqualHaveEqualHashes"
     ELSE IF \E i, j \in I : c.lt[i][j] + c.eq[i][j] + c.gt[i][j] # 1 THEN "Trichotomy"
     ELSE IF \E i, j \in I : c.gt[i][j] # c.lt[j][i] THEN "Antisymmetric"
     ELSE IF \E i, j \in I : c.le[i][j] # (IF c.lt[i][j] = 1 \/ c.eq[i][j] = 1 THEN 1 ELSE 0)
                             \/ c.ge[i][j] # (IF c.gt[i][j] = 1 \/ c.eq[i][j] = 1 THEN 1 ELSE 0) THEN "DerivedOperators"
     ELSE IF \E i, j, k \in I : c.lt[i][j] = 1 /\ c.lt[j][k] = 1 /\ c.lt[i][k] # 1 THEN "Transitive"
     ELSE IF \E i, j \in I : c.rank[i] < c.rank[j] /\ c.lt[i][j] # 1 THEN "TypeRankFirst"
     ELSE IF \E k \in 1..(Len(c.sorted) - 1) : c.lt[c.sorted[k + 1] + 1][c.sorted[k] + 1] = 1 THEN "SortedConsistent"
     ELSE IF {c.sorted[k] : k \in 1..Len(c.sorted)} # 0..(n - 1) THEN "SortedIsPermutation"
     ELSE ""

RebuildFail(c) ==
  IF c.from_ident # c.item THEN "RebuildFromIdent"
  ELSE IF c.from_spec # c.item THEN "RebuildFromSpec"
  ELSE IF c.copied # c.item THEN "CopyEqual"
  ELSE IF c.deepcopied # c.item THEN "DeepcopyEqual"
  ELSE IF c.pickled # c.item THEN "PickleEqual"
  ELSE IF c.all_equal # 1 THEN "RebuiltItemsCompareEqual"
  ELSE IF c.hash_equal # 1 THEN "RebuiltItemsHashEqual"
  ELSE IF c.immutable # 1 THEN "Immutable"
  ELSE ""

\* an item pickled in ONE interpreter process (its hash taken before) and loaded in ANOTHER (different string-hash
\* seed) is equal to the item built there, hashes like it and is found in a set holding it
XPickleFail(c) ==
  IF c.loaded # c.item THEN "PickleAcrossProcesses"
  ELSE IF c.eq # 1 \/ c.hash_eq # 1 \/ c.in_set # 1 THEN "PickleAcrossProcessesEqualHash"
  ELSE ""

HistoryFail(c) ==
  LET badk == {k \in 1..Len(c.ops) : c.ops[k].res # c.ops[k].want}
  IN IF badk = {} THEN "" ELSE "CacheInvisible"

Failures(c) ==
  LET f == CASE c.rec = "matrix" -> MatrixFail(c) [] c.rec = "rebuild" -> RebuildFail(c) [] c.rec = "xpickle" -> XPickleFail(c)
                [] OTHER -> HistoryFail(c)
  IN IF f = "" THEN <<>>
     ELSE <<[id |-> c.id, rec |-> c.rec, clause |-> f,
             detail |-> IF c.rec = "history"
                        THEN ToString(c.ops[CHOOSE k \in 1..Len(c.ops) : c.ops[k].res # c.ops[k].want])
                        ELSE IF c.rec \in {"rebuild", "xpickle"} THEN ToString(c.item) ELSE ""]>>

VARIABLES i, bad
B == INSTANCE Batch
Spec == B!BSpec
Publish == B!BPublish
Post == B!BPost
=============================================================================
