----------------------------- MODULE C08_Eval -----------------------------
(***************************************************************************)
(* C08: model evaluation is compositional and frame-correct.               *)
(* A case is one SET of model-API calls executed in several orders         *)
(* (`runs`, one per permutation) on fresh models of one logic.  For every  *)
(* run that finished:                                                      *)
(*   BaseCells        a value that was set is the value that is stored     *)
(*   EvalAgrees       value_of(s, w) = Eval(L, M, s, w) for every          *)
(*                    requested sentence and world (sentences are ordered  *)
(*                    by depth, the first disagreement is a minimal one)   *)
(*   FrameClosure     R is exactly the closure the logic requires of the   *)
(*                    pairs that were added                                *)
(*   ClassicalOK      identity an equivalence and a congruence, existence  *)
(*                    universal (classical family)                         *)
(*   OrderIndependent all complete runs of the same call set agree         *)
(***************************************************************************)
EXTENDS Models, Json, IOUtils

Cases == ndJsonDeserialize(IOEnv.CASES)

MOf(run) == [C |-> run.M.C, R |-> run.M.R, val |-> run.M.val]

AllOk(run) == run.finish = "ok" /\ \A j \in 1..Len(run.calls_res) : run.calls_res[j] = "ok"

TopOf(s) == IF s[1] = "O" THEN s[2] ELSE IF s[1] = "Q" THEN s[2] ELSE s[1]

\* Classical family: is the set of calls satisfiable at all?  (ground literals over
\* identity + predicates: decided by the equivalence closure of the T-identities)
CallW(x) == IF x.w < 0 THEN 0 ELSE x.w
ClassicallyConsistent(c) ==
  LET K == {j \in 1..Len(c.calls) : c.calls[j].op = "pred"}
      Ws == {CallW(c.calls[j]) : j \in K}
      Cs == UNION {SeqToSet(c.calls[j].s[3]) : j \in K}
      Eq(w) == TC({<<a, a>> : a \in Cs}
                  \cup UNION {{<<c.calls[j].s[3][1], c.calls[j].s[3][2]>>, <<c.calls[j].s[3][2], c.calls[j].s[3][1]>>}
                              : j \in {j \in K : CallW(c.calls[j]) = w /\ c.calls[j].s[2] = IdP /\ c.calls[j].v = "T"}})
      Same(w, t1, t2) == Len(t1) = Len(t2) /\ \A k \in 1..Len(t1) : <<t1[k], t2[k]>> \in Eq(w)
  IN \A w \in Ws :
       /\ \A j1, j2 \in K :
            (CallW(c.calls[j1]) = w /\ CallW(c.calls[j2]) = w /\ c.calls[j1].s[2] = c.calls[j2].s[2]
             /\ Same(w, c.calls[j1].s[3], c.calls[j2].s[3])) => c.calls[j1].v = c.calls[j2].v
       /\ \A j \in K : CallW(c.calls[j]) = w =>
            /\ (c.calls[j].s[2] = IdP /\ <<c.calls[j].s[3][1], c.calls[j].s[3][2]>> \in Eq(w) => c.calls[j].v = "T")
            /\ (c.calls[j].s[2] = ExP => c.calls[j].v = "T")

RunFailures(c, run) ==
  LET L == Logic(c.logic)
      M == MOf(run)
      W == IF L.modal THEN SeqToSet(run.M.W) ELSE {0}
      Cs == SeqToSet(run.M.C)
      inR == {<<c.calls[j].w, c.calls[j].w2>> : j \in {j \in 1..Len(c.calls) : c.calls[j].op = "access"}}
      R == SeqToSet(run.M.R)
      F(clause, detail) == [id |-> c.id, logic |-> c.logic, clause |-> clause, detail |-> detail, perm |-> run.perm]
      badcell == {j \in 1..Len(c.calls) :
                    /\ c.calls[j].op # "access"
                    /\ \E k \in 1..Len(run.perm) : run.perm[k] = j - 1 /\ run.calls_res[k] = "ok"
                    /\ Lookup(M, IF c.calls[j].w < 0 THEN 0 ELSE c.calls[j].w, c.calls[j].s, "?") # c.calls[j].v}
      badval == {j \in 1..Len(run.values) :
                    run.values[j][3] # Eval(L, M, c.sents[run.values[j][1] + 1], run.values[j][2])}
      preds == {run.M.val[j][2][2] : j \in {j \in 1..Len(run.M.val) : run.M.val[j][2][1] = "P"}}
      vfake == [preds |-> preds]
  IN IF run.finish # "ok"
     THEN (IF AllOk([run EXCEPT !.finish = "ok"]) /\ (L.base # "CPL" \/ ClassicallyConsistent(c))
           THEN <<F("FinishRaised", run.finish)>> ELSE <<>>)
     ELSE (IF badcell # {} THEN <<F("BaseCells", ToString(c.calls[CHOOSE j \in badcell : TRUE]))>> ELSE <<>>)
       \o (IF badval # {}
           THEN LET j == CHOOSE j \in badval : \A k \in badval : j <= k
                    s == c.sents[run.values[j][1] + 1]
                    wj == run.values[j][2]
                    operands == IF s[1] = "O" /\ s[2] \in ModalOps
                                THEN SetToSeq({Eval(L, M, s[3][1], u) : u \in Succ(M, wj)})
                                ELSE IF s[1] = "O" THEN [k \in 1..Len(s[3]) |-> Eval(L, M, s[3][k], wj)]
                                ELSE IF s[1] = "Q" THEN SetToSeq({Eval(L, M, Sub(s[4], M.C[k], s[3]), wj) : k \in 1..Len(M.C)})
                                ELSE <<>>
                IN <<F("EvalAgrees", [top |-> TopOf(s), operands |-> operands, got |-> run.values[j][3],
                                      want |-> Eval(L, M, s, run.values[j][2]), world |-> run.values[j][2],
                                      mixes |-> MixesNB(L, M, s, run.values[j][2]),
                                      sentence |-> ToString(s)])>>
           ELSE <<>>)
       \o (IF ~L.modal THEN <<>>
           ELSE IF L.frame = "serial"
           THEN (IF inR \subseteq R /\ FrameOKSet("serial", W, R) THEN <<>> ELSE <<F("FrameClosure", ToString(R))>>)
           ELSE (IF R = FrameClosure(L.frame, W, inR) THEN <<>> ELSE <<F("FrameClosure", ToString(R))>>))
       \* (call sets that are classically inconsistent are outside the property: any outcome is accepted)
       \o (IF L.base = "CPL" /\ AllOk(run) /\ ClassicallyConsistent(c) /\ ~ClassicalOK(vfake, M, W, Cs)
           THEN <<F("ClassicalOK", "")>> ELSE <<>>)

Failures(c) ==
  LET good == {j \in 1..Len(c.runs) : AllOk(c.runs[j])}
      ref == IF good = {} THEN 0 ELSE CHOOSE j \in good : \A k \in good : j <= k
      differ == IF Logic(c.logic).base = "CPL" /\ ~ClassicallyConsistent(c) THEN {}
                ELSE {j \in good : c.runs[j].M # c.runs[ref].M \/ c.runs[j].values # c.runs[ref].values}
  IN FlattenSeq([j \in 1..Len(c.runs) |-> RunFailures(c, c.runs[j])])
     \o (IF differ # {} THEN <<[id |-> c.id, logic |-> c.logic, clause |-> "OrderIndependent",
                                detail |-> "", perm |-> c.runs[CHOOSE j \in differ : TRUE].perm]>> ELSE <<>>)

VARIABLES i, bad
B == INSTANCE Batch
Spec == B!BSpec
Publish == B!BPublish
Post == B!BPost
=============================================================================
