----------------------------- MODULE C13_Parser -----------------------------
(***************************************************************************)
(* C13: parsers accept only closed well-formed sentences and fail only     *)
(* with ParseError (ParserHist of DESIGN.md).                              *)
(* Generator: every string of length <= LEN over a class-representative    *)
(* alphabet of each notation (plus a foreign character).                   *)
(* Validator (a history: records are consumed in order, `memo` is the      *)
(* history variable that makes the result a function of (notation, string, *)
(* predicate store)):                                                      *)
(*   OnlyParseError, WellFormed, PredicatesDeclared, StoreOnlyGrows,       *)
(*   NoArityConflictInStore, AutoOffStoreUnchanged, HistoryIndependent     *)
(*   (same outcome as a fresh parser with the same store), Memo.           *)
(***************************************************************************)
EXTENDS Lex, Notation, Json, IOUtils

Par == JsonDeserialize(IOEnv.PAR)
GenPost ==
  LET A == Par.alphabet                                   \* seq of one-character strings
      strs == UNION {{Render(t, "", 0) : t \in [1..n -> SeqToSet(A)]} : n \in 0..Par.len}
      seq == SetToSeq(strs)
      out == [j \in 1..Len(seq) |-> [id |-> j, str |-> seq[j]]]
  IN /\ TLCSet(2, 0)
     /\ PrintT(<<"GENERATED", Len(seq)>>)
     /\ ndJsonSerialize(IOEnv.OUT, out)

Recs == ndJsonDeserialize(IOEnv.CASES)

UserPreds(s) == {p \in PredicatesOf(s) : p[1] >= 0}
StoreOK(st) == \A p, q \in SeqToSet(st) : (p[1] = q[1] /\ p[2] = q[2]) => p[3] = q[3]

RecFail(r) ==
  IF r.out \notin {"ok", "ParseError"} THEN "OnlyParseError"
  ELSE IF r.fresh_out # r.out \/ r.fresh_sent # r.sent THEN "HistoryIndependent"
  ELSE IF ~(SeqToSet(r.store_before) \subseteq SeqToSet(r.store_after)) THEN "StoreOnlyGrows"
  ELSE IF ~StoreOK(r.store_after) THEN "NoArityConflictInStore"
  ELSE IF r.auto = 0 /\ SeqToSet(r.store_after) # SeqToSet(r.store_before) THEN "AutoOffStoreUnchanged"
  ELSE IF r.out = "ok" /\ ~IsClosedWF(r.sent) THEN "WellFormed"
  ELSE IF r.out = "ok" /\ ~(UserPreds(r.sent) \subseteq SeqToSet(r.store_after)) THEN "PredicatesDeclared"
  ELSE ""

VARIABLES l, memo, bad
vars == <<l, memo, bad>>
Init == l = 1 /\ memo = <<>> /\ bad = <<>>
R == Recs[l]
Key(r) == <<r.notation, r.auto, r.str, SeqToSet(r.store_before)>>
Next ==
  /\ l <= Len(Recs)
  /\ l' = l + 1
  /\ LET rf == RecFail(R)
         k == Key(R)
         res == <<R.out, R.sent>>
         F(clause) == [id |-> R.id, notation |-> R.notation, str |-> R.str, clause |-> clause, out |-> R.out,
                       auto |-> R.auto]
     IN IF rf # "" THEN bad' = Append(bad, F(rf)) /\ UNCHANGED memo
        ELSE IF k \in DOMAIN memo /\ memo[k] # res THEN bad' = Append(bad, F("Memo")) /\ UNCHANGED memo
        ELSE /\ memo' = IF k \in DOMAIN memo THEN memo ELSE [x \in DOMAIN memo \cup {k} |-> IF x = k THEN res ELSE memo[x]]
             /\ UNCHANGED bad
Spec == Init /\ [][Next]_vars
Done == l > Len(Recs)
Publish == Done => TLCSet(1, bad)
Post == JsonSerialize(IOEnv.OUT, [n |-> Len(Recs), bad |-> TLCGet(1)])
GenSpec == l = 0 /\ memo = <<>> /\ bad = <<>> /\ [][FALSE]_vars
=============================================================================
