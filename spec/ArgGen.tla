------------------------------- MODULE ArgGen -------------------------------
(***************************************************************************)
(* Bounded grammars: the quantifier domains of the exhaustive tiers.       *)
(* Sentences are the tuples of DESIGN.md 2.2.                              *)
(***************************************************************************)
EXTENDS Naturals, Sequences, FiniteSets

Atom(i) == <<"A", i, 0>>
Un(op, x) == <<"O", op, <<x>>>>
Bin(op, x, y) == <<"O", op, <<x, y>>>>

UnaryTF == {"Assertion", "Negation"}
BinaryTF == {"Conjunction", "Disjunction", "MaterialConditional", "MaterialBiconditional",
             "Conditional", "Biconditional"}

\* PropN(n, atoms): sentences with EXACTLY n truth-functional connectives
RECURSIVE PropN(_, _)
PropN(n, atoms) ==
  IF n = 0 THEN atoms
  ELSE {Un(op, x) : op \in UnaryTF, x \in PropN(n - 1, atoms)}
       \cup UNION {{Bin(op, x, y) : op \in BinaryTF, x \in PropN(k, atoms), y \in PropN(n - 1 - k, atoms)}
                   : k \in 0..(n - 1)}

PropUpTo(n, atoms) == UNION {PropN(k, atoms) : k \in 0..n}

\* modal propositional: unary also ranges over the two modal operators
UnaryM == UnaryTF \cup {"Possibility", "Necessity"}
RECURSIVE ModalN(_, _)
ModalN(n, atoms) ==
  IF n = 0 THEN atoms
  ELSE {Un(op, x) : op \in UnaryM, x \in ModalN(n - 1, atoms)}
       \cup UNION {{Bin(op, x, y) : op \in BinaryTF, x \in ModalN(k, atoms), y \in ModalN(n - 1 - k, atoms)}
                   : k \in 0..(n - 1)}
ModalUpTo(n, atoms) == UNION {ModalN(k, atoms) : k \in 0..n}

RECURSIVE ConnCount(_)
ConnCount(s) == IF s[1] = "O" THEN 1 + (IF Len(s[3]) = 1 THEN ConnCount(s[3][1])
                                        ELSE ConnCount(s[3][1]) + ConnCount(s[3][2]))
                ELSE IF s[1] = "Q" THEN 1 + ConnCount(s[4]) ELSE 0
=============================================================================
