----------------------------- MODULE C07_Tables -----------------------------
(***************************************************************************)
(* C07: each logic's truth tables are the documented ones.                 *)
(* A case is the complete set of tables one logic's Model publishes.       *)
(***************************************************************************)
EXTENDS Logics, Json, IOUtils

Cases == ndJsonDeserialize(IOEnv.CASES)

SeqSet(s) == {s[k] : k \in 1..Len(s)}

TableOf(c, op) == LET I == {k \in 1..Len(c.tables) : c.tables[k].op = op}
                  IN c.tables[CHOOSE k \in I : TRUE].rows
\* the code's table as a function of the argument tuple
CodeTab(c, op, a) == LET rows == TableOf(c, op)
                         I == {k \in 1..Len(rows) : rows[k].ins = a}
                     IN IF I = {} THEN "?" ELSE rows[CHOOSE k \in I : TRUE].out

Fail(c, clause, op, ins, got, want) ==
  [id |-> c.id, logic |-> c.logic, clause |-> clause, operator |-> op, inputs |-> ins, got |-> got, want |-> want]

EntryFailures(c) ==
  LET b == Logic(c.logic).base
      F(op) == LET rows == TableOf(c, op)
                   badk == {k \in 1..Len(rows) : rows[k].out # Tab(b, op, rows[k].ins)}
               IN {Fail(c, "TableEntry", op, rows[k].ins, rows[k].out, Tab(b, op, rows[k].ins)) : k \in badk}
  IN UNION {F(op) : op \in TruthFunctional}

\* every value tuple has exactly one row
CompleteFailures(c) ==
  LET b == Logic(c.logic).base IN
  UNION {{Fail(c, "TableComplete", op, a, CodeTab(c, op, a), Tab(b, op, a)) :
            a \in {a \in [1..ArityOf(op) -> ValsOf(b)] :
                     Cardinality({k \in 1..Len(TableOf(c, op)) : TableOf(c, op)[k].ins = a}) # 1}}
         : op \in TruthFunctional}

ValueFailures(c) ==
  LET b == Logic(c.logic).base IN
  (IF SeqSet(c.values) # ValsOf(b) THEN {Fail(c, "Values", "", c.values, "", "")} ELSE {})
  \cup (IF SeqSet(c.designated) # DesOf(b) THEN {Fail(c, "Designated", "", c.designated, "", "")} ELSE {})
  \cup (IF c.unassigned # UnassOf(b) THEN {Fail(c, "Unassigned", "", <<>>, c.unassigned, UnassOf(b))} ELSE {})

\* the defined operators obey their definitions -- on the CODE's own tables
DefFailures(c) ==
  LET b == Logic(c.logic).base
      V == SeqSet(c.values)
      T(op, a) == CodeTab(c, op, a)
      MCdef(x, y) == T("Disjunction", <<T("Negation", <<x>>), y>>)
      MBdef(x, y) == T("Conjunction", <<T("MaterialConditional", <<x, y>>), T("MaterialConditional", <<y, x>>)>>)
      Bdef(x, y)  == T("Conjunction", <<T("Conditional", <<x, y>>), T("Conditional", <<y, x>>)>>)
  IN {Fail(c, "MaterialConditionalIsNotOr", "MaterialConditional", p, T("MaterialConditional", p), MCdef(p[1], p[2])) :
        p \in {p \in V \X V : T("MaterialConditional", p) # MCdef(p[1], p[2])}}
     \cup
     {Fail(c, "MaterialBiconditionalIsConjOfConditionals", "MaterialBiconditional", p,
           T("MaterialBiconditional", p), MBdef(p[1], p[2])) :
        p \in {p \in V \X V : T("MaterialBiconditional", p) # MBdef(p[1], p[2])}}
     \cup
     {Fail(c, "BiconditionalIsConjOfConditionals", "Biconditional", p, T("Biconditional", p), Bdef(p[1], p[2])) :
        p \in {p \in V \X V : T("Biconditional", p) # Bdef(p[1], p[2])}}
     \cup
     (IF b \in {"B3E", "GO"} THEN {}
      ELSE {Fail(c, "AssertionTransparent", "Assertion", <<x>>, T("Assertion", <<x>>), x) :
              x \in {x \in V : T("Assertion", <<x>>) # x}})

SetToSeq(S) == LET RECURSIVE go(_)
                   go(X) == IF X = {} THEN <<>> ELSE LET x == CHOOSE x \in X : TRUE IN <<x>> \o go(X \ {x})
               IN go(S)

Failures(c) ==
  IF c.phase = "names"
  THEN (IF {c.names[k] : k \in 1..Len(c.names)} = LogicNames THEN <<>>
        ELSE <<[id |-> c.id, logic |-> "", clause |-> "RegisteredLogics", operator |-> "", inputs |-> c.names, got |-> "", want |-> ""]>>)
  ELSE IF c.logic \notin LogicNames
  THEN <<Fail(c, "UnknownLogic", "", <<>>, "", "")>>
  ELSE SetToSeq(EntryFailures(c) \cup CompleteFailures(c) \cup ValueFailures(c) \cup DefFailures(c))

VARIABLES i, bad
B == INSTANCE Batch
Spec == B!BSpec
Publish == B!BPublish
Post == B!BPost
=============================================================================
