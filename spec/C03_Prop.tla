------------------------------ MODULE C03_Prop ------------------------------
(***************************************************************************)
(* C03: propositional arguments are decided exactly, without limits.       *)
(* Generator: every conclusion with <= NC connectives over two letters,    *)
(* with no premise or one premise with <= NP connectives.                  *)
(* Validator: per argument, the recorded outcome in every logic / option   *)
(* combination against truth-table validity computed here.                 *)
(***************************************************************************)
EXTENDS Logics, ArgGen, SequencesExt, FiniteSetsExt, Json, IOUtils

Letters == {Atom(0), Atom(1)}
Par == JsonDeserialize(IOEnv.PAR)      \* [nc0, nc1, np1]: conclusions alone <= nc0; with premise: concl <= nc1, prem <= np1

GenCases ==
  {[prems |-> <<>>, conc |-> c] : c \in PropUpTo(Par.nc0, Letters)}
  \cup {[prems |-> <<p>>, conc |-> c] : p \in PropUpTo(Par.np1, Letters), c \in PropUpTo(Par.nc1, Letters)}

GenPost == LET seq == SetToSeq(GenCases)
               out == [j \in 1..Len(seq) |-> [id |-> j, arg |-> seq[j]]]
           IN /\ TLCSet(2, 0)
              /\ PrintT(<<"GENERATED", Len(seq)>>)
              /\ ndJsonSerialize(IOEnv.OUT, out)

(* ---- oracle: truth-table validity over the two letters ---- *)
RECURSIVE EvalP(_, _, _)
EvalP(b, v, s) == IF s[1] = "A" THEN v[s[2] + 1]
                  ELSE Tab(b, s[2], [j \in 1..Len(s[3]) |-> EvalP(b, v, s[3][j])])

\* letters a, b, c (index 0..2); generated arguments use two, the systematic one-rule arguments three
PropValid(b, arg) ==
  \A v \in [1..3 -> ValsOf(b)] :
     (\A j \in 1..Len(arg.prems) : EvalP(b, v, arg.prems[j]) \in DesOf(b)) => EvalP(b, v, arg.conc) \in DesOf(b)

Cases == ndJsonDeserialize(IOEnv.CASES)

Fail(c, r, clause, want) == [id |-> c.id, argstr |-> c.argstr, logic |-> r.logic, g |-> r.g, r |-> r.r, mode |-> r.mode,
                             clause |-> clause, outcome |-> r.outcome, want |-> want, rules |-> r.rules]

RunFailures(c, r) ==
  LET b == Logic(r.logic).base
      want == IF PropValid(b, c.arg) THEN "valid" ELSE "invalid"
  IN IF r.outcome = "raise" THEN <<Fail(c, r, "Raised", want)>>
     ELSE IF r.outcome = "limit" \/ r.premature = 1 \/ r.quit_flags > 0 THEN <<Fail(c, r, "SpuriousLimit", want)>>
     ELSE IF r.outcome # want THEN <<Fail(c, r, IF want = "valid" THEN "RefutedButValid" ELSE "ValidButRefutable", want)>>
     ELSE <<>>

Failures(c) == FlattenSeq([j \in 1..Len(c.runs) |-> RunFailures(c, c.runs[j])])

VARIABLES i, bad
B == INSTANCE Batch
Spec == B!BSpec
Publish == B!BPublish
Post == B!BPost
GenSpec == i = 0 /\ bad = <<>> /\ [][FALSE]_<<i, bad>>
=============================================================================
