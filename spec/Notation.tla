------------------------------ MODULE Notation ------------------------------
(***************************************************************************)
(* Concrete syntax as GENERATORS: the strings that denote a sentence.      *)
(* Symbol tables are data read from the package at run time (T below), so  *)
(* a renamed symbol is not an alarm; the STRUCTURE of both notations is    *)
(* specified here.                                                         *)
(*   T = [atomic, constant, variable, predicate : seq of chars (by index), *)
(*        op, q, sys : records name -> char, popen, pclose, ws : char]     *)
(***************************************************************************)
EXTENDS Naturals, Integers, Sequences, FiniteSets, SequencesExt, TLC

DigitCh == <<"0", "1", "2", "3", "4", "5", "6", "7", "8", "9">>
RECURSIVE Digits(_)
Digits(n) == IF n < 10 THEN <<DigitCh[n + 1]>> ELSE Digits(n \div 10) \o <<DigitCh[(n % 10) + 1]>>
Subscript(n) == IF n = 0 THEN <<>> ELSE Digits(n)
Coords(chars, idx, sub) == <<chars[idx + 1]>> \o Subscript(sub)

ParamTok(T, p) == Coords(IF p[1] = "c" THEN T.constant ELSE T.variable, p[2], p[3])
PredTok(T, pr) == IF pr[1] = -1 THEN <<T.sys.Identity>> ELSE IF pr[1] = -2 THEN <<T.sys.Existence>>
                  ELSE Coords(T.predicate, pr[1], pr[2])
ParamsTok(T, ps) == FlattenSeq([j \in 1..Len(ps) |-> ParamTok(T, ps[j])])

(* ---- Polish: strict prefix ---- *)
RECURSIVE PolishTok(_, _)
PolishTok(T, s) ==
  CASE s[1] = "A" -> Coords(T.atomic, s[2], s[3])
    [] s[1] = "P" -> PredTok(T, s[2]) \o ParamsTok(T, s[3])
    [] s[1] = "Q" -> <<T.q[s[2]]>> \o ParamTok(T, s[3]) \o PolishTok(T, s[4])
    [] OTHER      -> <<T.op[s[2]]>> \o FlattenSeq([j \in 1..Len(s[3]) |-> PolishTok(T, s[3][j])])

(* ---- Standard: infix binary operators in parentheses, prefix unary operators and quantifiers,
        predications prefix or (arity >= 2) infix.  style = [infix |-> BOOLEAN] ---- *)
RECURSIVE StdTok(_, _, _)
StdTok(T, s, infix) ==
  CASE s[1] = "A" -> Coords(T.atomic, s[2], s[3])
    [] s[1] = "P" -> IF infix /\ Len(s[3]) >= 2
                     THEN ParamTok(T, s[3][1]) \o PredTok(T, s[2]) \o ParamsTok(T, Tail(s[3]))
                     ELSE PredTok(T, s[2]) \o ParamsTok(T, s[3])
    [] s[1] = "Q" -> <<T.q[s[2]]>> \o ParamTok(T, s[3]) \o StdTok(T, s[4], infix)
    [] OTHER -> IF Len(s[3]) = 1 THEN <<T.op[s[2]]>> \o StdTok(T, s[3][1], infix)
                ELSE <<T.popen>> \o StdTok(T, s[3][1], infix) \o <<T.op[s[2]]>> \o StdTok(T, s[3][2], infix) \o <<T.pclose>>

IsBinary(s) == s[1] = "O" /\ Len(s[3]) = 2
DropOuter(toks) == SubSeq(toks, 2, Len(toks) - 1)

\* the token sequences denoting s in standard notation
StdVariants(T, s) ==
  LET full == {StdTok(T, s, FALSE), StdTok(T, s, TRUE)}
  IN full \cup (IF IsBinary(s) THEN {DropOuter(t) : t \in full} ELSE {})

(* ---- whitespace: pattern 0 none, 1 between all tokens, 2 around every third token and at both ends ---- *)
RECURSIVE JoinWith(_, _, _, _)
JoinWith(toks, ws, pat, k) ==
  IF toks = <<>> THEN (IF pat = 2 THEN ws ELSE "")
  ELSE LET gap == CASE pat = 0 -> "" [] pat = 1 -> (IF k = 1 THEN "" ELSE ws)
                    [] OTHER -> (IF k % 3 = 1 THEN ws \o ws ELSE "")
       IN gap \o Head(toks) \o JoinWith(Tail(toks), ws, pat, k + 1)
Render(toks, ws, pat) == JoinWith(toks, ws, pat, 1)
=============================================================================
