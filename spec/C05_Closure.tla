----------------------------- MODULE C05_Closure -----------------------------
(***************************************************************************)
(* C05: branches close exactly when their literals are unsatisfiable.      *)
(*                                                                         *)
(* Generator (pipeline B): every ordered subset of the literal constraints *)
(* on one sentence (the sentence / its negation x designation marks the    *)
(* logic's node style uses) x world assignments for modal logics, for      *)
(* every logic and every kind of literal sentence.                         *)
(* Validator (pipeline A): recorded outcome (all branches closed? value    *)
(* read back by the model builder per open branch) against Unsat.          *)
(***************************************************************************)
EXTENDS Logics, SequencesExt, FiniteSetsExt, Json, IOUtils

FULL == IOEnv.FULL = "1"      \* thorough: orders x world assignments in full

a0 == <<"c", 0, 0>>
b0 == <<"c", 1, 0>>
x0 == <<"v", 0, 0>>
F1 == <<0, 0, 1>>
SentOf(kind) ==
  CASE kind = "atom"    -> <<"A", 0, 0>>
    [] kind = "pred"    -> <<"P", F1, <<a0>>>>
    [] kind = "opaqueQ" -> <<"Q", "Existential", x0, <<"P", F1, <<x0>>>>>>
    [] kind = "opaqueM" -> <<"O", "Possibility", <<<<"A", 0, 0>>>>>>
    [] kind = "selfid"  -> <<"P", <<-1, 0, 2>>, <<a0, a0>>>>
    [] kind = "ident"   -> <<"P", <<-1, 0, 2>>, <<a0, b0>>>>
    [] kind = "identsub" -> <<"P", <<-1, 0, 2>>, <<a0, <<"c", 0, 1>>>>>>      \* same letter, other subscript
    [] kind = "existsub" -> <<"P", <<-2, 0, 1>>, <<<<"c", 0, 1>>>>>>
    [] kind = "exist"   -> <<"P", <<-2, 0, 1>>, <<a0>>>>

Classical(L) == Logic(L).base = "CPL"
KindsFor(L) ==
  {"atom", "pred"}
  \cup (IF Logic(L).quantified THEN {} ELSE {"opaqueQ"})
  \cup (IF Logic(L).modal THEN {} ELSE {"opaqueM"})
  \cup (IF Classical(L) THEN {"selfid", "ident", "exist", "identsub", "existsub"} ELSE {})

Marks(L) == IF Logic(L).style = "plain" THEN {""} ELSE {"+", "-"}
LitSet(L) == {[neg |-> n, d |-> d] : n \in {0, 1}, d \in Marks(L)}

\* world assignments for an ordered literal tuple p
WorldAsg(L, p, allOrders) ==
  IF ~Logic(L).modal THEN {[k \in 1..Len(p) |-> -1]}
  ELSE IF FULL \/ ~allOrders THEN [1..Len(p) -> {0, 1}]
  ELSE {[k \in 1..Len(p) |-> 0], [k \in 1..Len(p) |-> 1]}

\* quick: all orders at one world + every world assignment for two fixed orders
Canon(L, p) == \A k \in 1..(Len(p) - 1) :
                  <<p[k].neg, p[k].d>> # <<p[k+1].neg, p[k+1].d>> /\
                  (p[k].neg < p[k+1].neg \/ (p[k].neg = p[k+1].neg /\ p[k].d = "+"))
GenCases ==
  {[logic |-> L, kind |-> kd, s |-> SentOf(kd),
    lits |-> [k \in 1..Len(p) |-> [neg |-> p[k].neg, d |-> p[k].d, w |-> wa[k]]]] :
     <<L, kd, p, wa>> \in
       UNION {UNION {UNION {{<<L, kd, p, wa>> : wa \in WorldAsg(L, p, TRUE)
                                                    \cup (IF Canon(L, p) \/ Canon(L, Reverse(p))
                                                          THEN WorldAsg(L, p, FALSE) ELSE {})}
                            : p \in SetToAllKPermutations(LitSet(L))}
                     : kd \in KindsFor(L)}
              : L \in LogicNames}}

GenPost == LET seq == SetToSeq(GenCases)
               out == [k \in 1..Len(seq) |-> [id |-> k] @@ seq[k]]
           IN /\ TLCSet(2, 0)
              /\ PrintT(<<"GENERATED", Len(seq)>>)
              /\ ndJsonSerialize(IOEnv.OUT, out)

(***************************************************************************)
(* Oracle                                                                  *)
(***************************************************************************)
LitOK(b, v, lit) ==
  LET x == IF lit.neg = 1 THEN Neg(b, v) ELSE v
  IN IF lit.d = "" THEN x = "T" ELSE IF lit.d = "+" THEN x \in DesOf(b) ELSE x \notin DesOf(b)

Allowed(L, kind) == IF Classical(L) /\ kind \in {"selfid", "exist", "existsub"} THEN {"T"} ELSE ValsOf(Logic(L).base)

WorldsOf(c) == {c.lits[k].w : k \in 1..Len(c.lits)}
LitsAt(c, w) == {c.lits[k] : k \in {k \in 1..Len(c.lits) : c.lits[k].w = w}}
ValOK(c, w, v) == v \in Allowed(c.logic, c.kind) /\ \A lit \in LitsAt(c, w) : LitOK(Logic(c.logic).base, v, lit)
Sat(c) == \A w \in WorldsOf(c) : \E v \in Vals4 : ValOK(c, w, v)

(***************************************************************************)
(* Validation of recorded outcomes                                         *)
(*   c.closed : 1 iff every branch of the tableau is closed                *)
(*   c.reads  : per open branch, sequence of <<world, value>>              *)
(***************************************************************************)
Cases == ndJsonDeserialize(IOEnv.CASES)

Fail(c, clause, extra) == [id |-> c.id, logic |-> c.logic, kind |-> c.kind, clause |-> clause,
                           lits |-> c.lits, extra |-> extra]
Failures(c) ==
  IF c.err # "" THEN <<Fail(c, "Raised", c.err)>>
  ELSE IF c.closed = 1 /\ Sat(c) THEN <<Fail(c, "ClosesSat", "")>>
  ELSE IF c.closed = 0 /\ ~Sat(c) THEN <<Fail(c, "OpenUnsat", "")>>
  ELSE IF c.closed = 0 /\ \E r \in 1..Len(c.reads) : \E k \in 1..Len(c.reads[r]) :
                              ~ValOK(c, c.reads[r][k][1], c.reads[r][k][2])
       THEN <<Fail(c, "ReadValue", ToString(c.reads))>>
  ELSE IF c.closed = 0 /\ \E r \in 1..Len(c.reads) : {c.reads[r][k][1] : k \in 1..Len(c.reads[r])} # WorldsOf(c)
       THEN <<Fail(c, "ReadValueMissingWorld", ToString(c.reads))>>
  ELSE <<>>

VARIABLES i, bad
B == INSTANCE Batch
Spec == B!BSpec
Publish == B!BPublish
Post == B!BPost

GenSpec == i = 0 /\ bad = <<>> /\ [][FALSE]_<<i, bad>>
=============================================================================
