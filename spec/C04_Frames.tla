----------------------------- MODULE C04_Frames -----------------------------
(***************************************************************************)
(* C04 (frame rules): the frame rules of a modal logic extend a branch's   *)
(* access pairs to exactly the closure its frame condition requires.       *)
(* Generator: every set of access pairs over <= NW worlds, every world     *)
(* carrying a sentence, for the logics named in IOEnv.LOGICS (comma list;  *)
(* empty = all modal logics).                                              *)
(***************************************************************************)
EXTENDS Logics, Frames, SequencesExt, FiniteSetsExt, Json, IOUtils

SeqSetOf(q) == {q[j] : j \in 1..Len(q)}
NW3 == JsonDeserialize(IOEnv.SEL).full      \* logics that get the 3-world space
NW2 == JsonDeserialize(IOEnv.SEL).small     \* logics that get the 2-world space

ModalLogics == {L \in LogicNames : Logic(L).modal}
WorldsUpTo(n) == 0..(n - 1)

GenCases ==
  \* bare = 1: the branch holds the access nodes only (no world carries a sentence)
  \* split = 1 (serial logics): a disjunction at world 0 forks the tableau, the frame rule must serve every branch
  UNION {{[logic |-> L, worlds |-> SetToSeq(WorldsUpTo(n)), access |-> SetToSeq(R), bare |-> bs[1], split |-> bs[2]]
           : R \in SUBSET (WorldsUpTo(n) \X WorldsUpTo(n)),
             bs \in {<<0, 0>>, <<1, 0>>} \cup (IF Logic(L).frame = "serial" THEN {<<0, 1>>} ELSE {})}
         : <<L, n>> \in ({<<L, 3>> : L \in ModalLogics \cap SeqSetOf(NW3)}
                         \cup {<<L, 2>> : L \in ModalLogics \cap SeqSetOf(NW2)})}

GenPost == LET seq == SetToSeq(GenCases)
               out == [j \in 1..Len(seq) |-> [id |-> j] @@ seq[j]]
           IN /\ TLCSet(2, 0)
              /\ PrintT(<<"GENERATED", Len(seq)>>)
              /\ ndJsonSerialize(IOEnv.OUT, out)

Cases == ndJsonDeserialize(IOEnv.CASES)

Fail(c, clause) == [id |-> c.id, logic |-> c.logic, clause |-> clause, worlds |-> c.worlds, bare |-> c.bare,
                    split |-> c.split, access |-> c.access, result |-> c.results]

BranchFail(c, res) ==
  LET cls == Logic(c.logic).frame
      R == SeqSetOf(c.access)
      Ws == IF c.bare = 1 THEN {} ELSE SeqSetOf(c.worlds)              \* worlds that carry a sentence
      W == IF c.bare = 1 THEN {p[1] : p \in R} \cup {p[2] : p \in R} ELSE SeqSetOf(c.worlds)
      Res == SeqSetOf(res)
  IN IF cls = "serial"
     THEN (IF ~(R \subseteq Res) THEN "AccessLost"
           ELSE IF \E w \in Ws : SuccR(Res, w) = {} THEN "SerialSuccessorMissing"
           ELSE IF \E p \in Res \ R : p[2] \in W \/ SuccR(R, p[1]) # {} THEN "SerialAddsMoreThanRequired"
           ELSE "")
     ELSE IF Res # FrameClosure(cls, W, R) THEN "FrameClosure" ELSE ""

Failures(c) ==
  IF c.err # "" THEN <<Fail(c, "Raised")>>
  ELSE IF c.nbranches # 1 + c.split \/ c.closed = 1 THEN <<Fail(c, "FrameRulesForkOrClose")>>
  ELSE IF c.flags # 0 THEN <<Fail(c, "UnexpectedFlagNode")>>
  ELSE LET badb == {j \in 1..Len(c.results) : BranchFail(c, c.results[j]) # ""}
       IN IF badb = {} THEN <<>> ELSE <<Fail(c, BranchFail(c, c.results[CHOOSE j \in badb : TRUE]))>>

VARIABLES i, bad
B == INSTANCE Batch
Spec == B!BSpec
Publish == B!BPublish
Post == B!BPost
GenSpec == i = 0 /\ bad = <<>> /\ [][FALSE]_<<i, bad>>
=============================================================================
