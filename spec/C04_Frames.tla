----------------------------- MODULE C04_Frames -----------------------------
(***************************************************************************)
(* C04 (frame rules): the frame rules of a modal logic extend a branch's   *)
(* access pairs to exactly the closure its frame condition requires.       *)
(* Generator: every set of access pairs over <= NW worlds, every world     *)
(* carrying a sentence, for the logics named in IOEnv.LOGICS (comma list;  *)
(* empty = all modal logics).                                              *)
(***************************************************************************)
EXTENDS Logics, Frames, SequencesExt, FiniteSetsExt, Json, IOUtils

SeqSetOf(q) == {q[j] : j \in 1..Len(q)}
NW3 == JsonDeserialize(IOEnv.SEL).full      \* logics that get the 3-world space
NW2 == JsonDeserialize(IOEnv.SEL).small     \* logics that get the 2-world space

ModalLogics == {L \in LogicNames : Logic(L).modal}
WorldsUpTo(n) == 0..(n - 1)

GenCases ==
  UNION {{[logic |-> L, worlds |-> SetToSeq(WorldsUpTo(n)), access |-> SetToSeq(R)]
           : R \in SUBSET (WorldsUpTo(n) \X WorldsUpTo(n))}
         : <<L, n>> \in ({<<L, 3>> : L \in ModalLogics \cap SeqSetOf(NW3)}
                         \cup {<<L, 2>> : L \in ModalLogics \cap SeqSetOf(NW2)})}

GenPost == LET seq == SetToSeq(GenCases)
               out == [j \in 1..Len(seq) |-> [id |-> j] @@ seq[j]]
           IN /\ TLCSet(2, 0)
              /\ PrintT(<<"GENERATED", Len(seq)>>)
              /\ ndJsonSerialize(IOEnv.OUT, out)

Cases == ndJsonDeserialize(IOEnv.CASES)

Fail(c, clause) == [id |-> c.id, logic |-> c.logic, clause |-> clause, worlds |-> c.worlds,
                    access |-> c.access, result |-> c.result]

Failures(c) ==
  LET cls == Logic(c.logic).frame
      W == SeqSetOf(c.worlds)
      R == SeqSetOf(c.access)
      Res == SeqSetOf(c.result)
  IN IF c.err # "" THEN <<Fail(c, "Raised")>>
     ELSE IF c.nbranches # 1 \/ c.closed = 1 THEN <<Fail(c, "FrameRulesForkOrClose")>>
     ELSE IF c.flags # 0 THEN <<Fail(c, "UnexpectedFlagNode")>>
     ELSE IF cls = "serial"
          THEN (IF ~(R \subseteq Res) THEN <<Fail(c, "AccessLost")>>
                ELSE IF \E w \in W : SuccR(Res, w) = {} THEN <<Fail(c, "SerialSuccessorMissing")>>
                ELSE IF \E p \in Res \ R : p[2] \in W \/ SuccR(R, p[1]) # {} THEN <<Fail(c, "SerialAddsMoreThanRequired")>>
                ELSE <<>>)
     ELSE IF Res # FrameClosure(cls, W, R) THEN <<Fail(c, "FrameClosure")>>
     ELSE <<>>

VARIABLES i, bad
B == INSTANCE Batch
Spec == B!BSpec
Publish == B!BPublish
Post == B!BPost
GenSpec == i = 0 /\ bad = <<>> /\ [][FALSE]_<<i, bad>>
=============================================================================
