----------------------------- MODULE C12_Round -----------------------------
(***************************************************************************)
(* C12: sentences and arguments survive a write/parse round trip.          *)
(* Generator: the sentence space of Lex.tla, decorated with indexes and    *)
(* subscripts (0, 1, 9, 10, 12345), and for each sentence the strings that *)
(* denote it: the Polish token string and the standard-notation variants   *)
(* (parentheses kept / outer dropped, prefix / infix predication) under    *)
(* three whitespace patterns.                                              *)
(* Validator:                                                              *)
(*   Denotes    the real parser maps each generated string to its sentence *)
(*   RoundTrip  real Polish-ASCII writer -> real parser gives the sentence *)
(*   ArgStr     argstr() -> Argument() gives the argument                  *)
(*   Injective  per (notation, format, dialect, options) the written       *)
(*              strings of distinct sentences are distinct                 *)
(***************************************************************************)
EXTENDS Lex, Notation, Json, IOUtils

Par == JsonDeserialize(IOEnv.PAR)
Tab == JsonDeserialize(IOEnv.TABLES)       \* [polish |-> T, standard |-> T]

Subs == <<0, 1, 9, 10, 12345>>
\* decoration k: shift indexes, pick subscripts; injective per kind for fixed k
RECURSIVE Decorate(_, _)
DecP(p, k) == IF p[1] = "c" THEN <<"c", (p[2] + k) % 4, Subs[((k + p[2]) % 5) + 1]>>
              ELSE <<"v", (p[2] + k) % 4, Subs[((k + 1) % 5) + 1]>>
Decorate(s, k) ==
  CASE s[1] = "A" -> <<"A", (s[2] + k) % 5, Subs[(k % 5) + 1]>>
    [] s[1] = "P" -> <<"P", (IF s[2][1] < 0 THEN s[2] ELSE <<(s[2][1] + k) % 4, Subs[((k + 2) % 5) + 1], s[2][3]>>),
                       [j \in 1..Len(s[3]) |-> DecP(s[3][j], k)]>>
    [] s[1] = "Q" -> <<"Q", s[2], DecP(s[3], k), Decorate(s[4], k)>>
    [] OTHER      -> <<"O", s[2], [j \in 1..Len(s[3]) |-> Decorate(s[3][j], k)]>>

AllOps == <<"Assertion", "Negation", "Conjunction", "Disjunction", "MaterialConditional", "MaterialBiconditional",
            "Conditional", "Biconditional", "Possibility", "Necessity">>
\* the grammar of Lex.tla uses 4 operators; rotate them through all ten so that every operator is written/parsed
RECURSIVE Reop(_, _)
Reop(s, k) ==
  CASE s[1] \in {"A", "P"} -> s
    [] s[1] = "Q" -> <<"Q", s[2], s[3], Reop(s[4], k)>>
    [] OTHER -> LET un == <<"Assertion", "Negation", "Possibility", "Necessity">>
                    bin == <<"Conjunction", "Disjunction", "MaterialConditional", "MaterialBiconditional", "Conditional", "Biconditional">>
                    base == IF s[2] \in {"Negation", "Conjunction"} THEN 0 ELSE 1
                IN <<"O", (IF Len(s[3]) = 1 THEN un[((base + k) % 4) + 1] ELSE bin[((base + k) % 6) + 1]),
                     [j \in 1..Len(s[3]) |-> Reop(s[3][j], k + j)]>>

GenPost ==
  LET lower == SetToSeq(FOSentUpTo(Par.n - 1))
      top == SetToSeq(FON(Par.n, {}))
      pick == SelectSeq([j \in 1..Len(top) |-> IF j % Par.stride = 0 THEN top[j] ELSE <<>>], LAMBDA x : x # <<>>)
      \* sibling (non-nested) quantifiers over the SAME variable: legal, and a classic scope-leak trap
      xv == GVars[1]
      bodies == SetToSeq({b \in FON(0, {xv}) : xv \in FreeVars(b)})
      sib == [j \in 1..(Len(bodies) * 2) |->
                LET b1 == bodies[((j - 1) % Len(bodies)) + 1]
                    b2 == bodies[((j * 7) % Len(bodies)) + 1]
                    op == IF j % 2 = 0 THEN "Conjunction" ELSE "Conditional"
                    q1 == IF j % 3 = 0 THEN "Existential" ELSE "Universal"
                    q2 == IF j % 5 < 2 THEN "Existential" ELSE "Universal"
                IN <<"O", op, <<<<"Q", q1, xv, b1>>, <<"Q", q2, xv, b2>>>>>>]
      \* binary sentences whose operands are themselves parenthesised / negated / nested binaries: with the
      \* outer parentheses dropped these strings begin with "(" and/or end with ")" without being enclosed
      a0 == <<"A", 0, 0>>
      a1 == <<"A", 1, 0>>
      a2 == <<"A", 2, 0>>
      Bi(o, x, y) == <<"O", o, <<x, y>>>>
      sides == << a0, Bi("Conjunction", a0, a1), <<"O", "Negation", <<Bi("Disjunction", a1, a2)>>>>,
                  Bi("Disjunction", Bi("Conjunction", a0, a1), a2), Bi("Conjunction", a2, Bi("Disjunction", a0, a1)) >>
      deep == [j \in 1..(Len(sides) * Len(sides)) |->
                 Bi(IF j % 2 = 0 THEN "Conjunction" ELSE "Disjunction",
                    sides[((j - 1) \div Len(sides)) + 1], sides[((j - 1) % Len(sides)) + 1])]
      base == lower \o pick \o sib \o deep
      sents == [j \in 1..Len(base) |-> Reop(Decorate(base[j], j % 7), j)]
      strings(s) == <<[notation |-> "polish", str |-> Render(PolishTok(Tab.polish, s), Tab.polish.ws, 0)],
                      [notation |-> "polish", str |-> Render(PolishTok(Tab.polish, s), Tab.polish.ws, 2)]>>
                    \o FlattenSeq([v \in 1..Cardinality(StdVariants(Tab.standard, s)) |->
                          LET toks == SetToSeq(StdVariants(Tab.standard, s))[v] IN
                          [p \in 1..3 |-> [notation |-> "standard", str |-> Render(toks, Tab.standard.ws, p - 1)]]])
      out == [j \in 1..Len(sents) |-> [id |-> j, s |-> sents[j], strings |-> strings(sents[j])]]
  IN /\ TLCSet(2, 0)
     /\ PrintT(<<"GENERATED", Len(sents)>>)
     /\ ndJsonSerialize(IOEnv.OUT, out)

Cases == ndJsonDeserialize(IOEnv.CASES)

Failures(c) ==
  IF c.rec = "sentence"
  THEN LET F(clause, detail) == [id |-> c.id, rec |-> c.rec, clause |-> clause, detail |-> detail]
           badp == {j \in 1..Len(c.parsed) : c.parsed[j].got # c.s}
       IN (IF ~IsClosedWF(c.s) THEN <<F("GeneratorWellFormed", "")>> ELSE <<>>)
          \o (IF badp # {} THEN LET j == CHOOSE j \in badp : TRUE IN
                                <<F("Denotes", [notation |-> c.parsed[j].notation, str |-> c.parsed[j].str, got |-> ToString(c.parsed[j].got)])>>
              ELSE <<>>)
          \o (IF c.reparsed # c.s THEN <<F("RoundTrip", [notation |-> "polish", str |-> c.written, got |-> ToString(c.reparsed)])>> ELSE <<>>)
  ELSE IF c.rec = "argument"
  THEN (IF c.rebuilt # c.arg THEN <<[id |-> c.id, rec |-> c.rec, clause |-> "ArgStr", detail |-> [notation |-> "polish", str |-> c.argstr, got |-> ToString(c.rebuilt)]]>> ELSE <<>>)
  ELSE \* "writer": strings of ALL sentences under one writer configuration
       LET n == Len(c.strings)
       IN IF Cardinality({c.strings[j] : j \in 1..n}) # n
          THEN LET j == CHOOSE j \in 1..n : \E k \in 1..n : k # j /\ c.strings[k] = c.strings[j]
               IN <<[id |-> c.id, rec |-> c.rec, clause |-> "Injective",
                     detail |-> [notation |-> c.notation, str |-> c.strings[j], got |-> c.writer]]>>
          ELSE IF c.errors # 0 THEN <<[id |-> c.id, rec |-> c.rec, clause |-> "WriterRaised",
                                       detail |-> [notation |-> c.notation, str |-> "", got |-> c.writer]]>>
          ELSE <<>>

VARIABLES i, bad
B == INSTANCE Batch
Spec == B!BSpec
Publish == B!BPublish
Post == B!BPost
GenSpec == i = 0 /\ bad = <<>> /\ [][FALSE]_<<i, bad>>
=============================================================================
