------------------------------ MODULE Tableau ------------------------------
(***************************************************************************)
(* Contract layer of the proof engine (DESIGN.md 3, `Tableau.tla`).        *)
(*                                                                         *)
(* A recorded STATE is the projection the recorder logs after the trunk    *)
(* and after every Tableau.step():                                         *)
(*   branches : seq of [nodes, ticked, closed, parent, step_added,         *)
(*                      step_closed, quit, tickstep]   (node ids are the   *)
(*              recorder's first-appearance numbers, 0-based; branch       *)
(*              numbers are positions in the tableau, 0-based)             *)
(*   open     : seq of branch numbers                                      *)
(*   nodes    : seq of node records (+ step = Node.step)                   *)
(*   finished, completed, premature, valid, invalid, current_step,         *)
(*   history_len                                                           *)
(* Every clause below is exactly one conjunct of property C16 (or C17) and *)
(* is named so that a rejection reads "trace t, event l, clause X".        *)
(***************************************************************************)
EXTENDS Naturals, Integers, Sequences, FiniteSets, SequencesExt, TLC

SeqSet(q) == {q[j] : j \in 1..Len(q)}
NoDup(q) == Cardinality(SeqSet(q)) = Len(q)
Br(st, i) == st.branches[i + 1]           \* 0-based branch number
NodeRec(st, id) == st.nodes[id + 1]
NBr(st) == Len(st.branches)


(* ---------------- trunk ---------------- *)
\* style: "plain" | "desig";  modal: BOOLEAN
TrunkExpected(arg, style, modal) ==
  LET w == IF modal THEN 0 ELSE -1
      P(s) == [k |-> "s", s |-> s, d |-> (IF style = "plain" THEN "" ELSE "+"), w |-> w]
      Cn == [k |-> "s",
             s |-> (IF style = "plain" THEN <<"O", "Negation", <<arg.conc>>>> ELSE arg.conc),
             d |-> (IF style = "plain" THEN "" ELSE "-"), w |-> w]
  IN [j \in 1..Len(arg.prems) |-> P(arg.prems[j])] \o <<Cn>>

Core(n) == [k |-> n.k, s |-> n.s, d |-> n.d, w |-> n.w]

TrunkOK(st, arg, style, modal) ==
  /\ NBr(st) = 1
  /\ LET b == Br(st, 0) IN
       /\ [j \in 1..Len(b.nodes) |-> Core(NodeRec(st, b.nodes[j]))] = TrunkExpected(arg, style, modal)
       /\ b.closed = 0 /\ b.parent = -1 /\ b.ticked = <<>>
  /\ st.open = <<0>>
  /\ st.history_len = 0 /\ st.finished = 0

(* ---------------- state invariants ---------------- *)
OpenIsExactlyUnclosed(st) ==
  /\ NoDup(st.open)
  /\ SeqSet(st.open) = {i \in 0..(NBr(st) - 1) : Br(st, i).closed = 0}
  \* the view says the same through every access path: reverse iteration, length, indexing, membership
  /\ st.open_rev = [k \in 1..Len(st.open) |-> st.open[Len(st.open) + 1 - k]]
  /\ st.open_len = Len(st.open)
  /\ st.open_item = st.open
  /\ st.open_last = (IF st.open = <<>> THEN -1 ELSE st.open[Len(st.open)])
  /\ st.open_member = [k \in 1..NBr(st) |-> IF Br(st, k - 1).closed = 0 THEN 1 ELSE 0]

ClosedMeansClosureLeaf(st) ==
  \A i \in 0..(NBr(st) - 1) :
     LET b == Br(st, i) IN
     b.closed = 1 <=> (Len(b.nodes) > 0 /\ NodeRec(st, b.nodes[Len(b.nodes)]).flag = "closure")

NoDuplicateNodes(st) == \A i \in 0..(NBr(st) - 1) : NoDup(Br(st, i).nodes)

TicksOnBranch(st) ==
  \A i \in 0..(NBr(st) - 1) : SeqSet(Br(st, i).ticked) \subseteq SeqSet(Br(st, i).nodes)

\* stat() never reports a tick the branch does not have (tick bookkeeping is per branch; ticks inherited from
\* the parent at a fork have no per-branch stat entry, so only this direction is demanded)
TickStatAgrees(st) ==
  \A i \in 0..(NBr(st) - 1) : SeqSet(Br(st, i).stat_ticked) \subseteq SeqSet(Br(st, i).ticked)

\* recorded step numbers of additions, ticks and closures are non-decreasing
\* along a branch and never in the future
StepNumbers(st) ==
  \A i \in 0..(NBr(st) - 1) :
    LET b == Br(st, i) IN
    /\ \A j \in 1..Len(b.nodes) : NodeRec(st, b.nodes[j]).step \in 0..st.current_step
    /\ \A j \in 1..(Len(b.nodes) - 1) : NodeRec(st, b.nodes[j]).step <= NodeRec(st, b.nodes[j + 1]).step
    /\ b.step_added \in 0..st.current_step
    /\ (b.closed = 1 => b.step_closed \in b.step_added..st.current_step)
    /\ \A j \in 1..Len(b.tickstep) :
          b.tickstep[j][2] \in NodeRec(st, b.tickstep[j][1]).step..st.current_step

ParentsEarlier(st) == \A i \in 0..(NBr(st) - 1) : Br(st, i).parent \in -1..(i - 1)

VerdictConsistent(st, hasarg) ==
  /\ st.completed = (IF st.finished = 1 /\ st.premature = 0 THEN 1 ELSE 0)
  /\ (st.finished = 0 => st.premature = 0 /\ st.valid = -1 /\ st.invalid = -1)
  /\ (st.premature = 1 => st.valid = -1 /\ st.invalid = -1)
  /\ (st.completed = 1 /\ hasarg => /\ st.valid = (IF st.open = <<>> THEN 1 ELSE 0)
                                    /\ st.invalid = 1 - st.valid)
  /\ (~hasarg => st.valid = -1 /\ st.invalid = -1)
  /\ st.current_step = st.history_len + st.trunk_built

\* name of the first failing clause, "" if none (lazy: later clauses may assume earlier ones)
StateFail(st) ==
  IF ~ParentsEarlier(st) THEN "ParentsEarlier"
  ELSE IF ~NoDuplicateNodes(st) THEN "NoDuplicateNodes"
  ELSE IF ~OpenIsExactlyUnclosed(st) THEN "OpenIsExactlyUnclosed"
  ELSE IF ~ClosedMeansClosureLeaf(st) THEN "ClosedMeansClosureLeaf"
  ELSE IF ~TicksOnBranch(st) THEN "TicksOnBranch"
  ELSE IF ~TickStatAgrees(st) THEN "TickStatAgrees"
  ELSE IF ~StepNumbers(st) THEN "StepNumbers"
  ELSE ""

(* ---------------- step contracts (a --e--> b) ---------------- *)
BranchesOnlyGrow(a, b) ==
  /\ NBr(a) <= NBr(b)
  /\ \A i \in 0..(NBr(a) - 1) :
       /\ IsPrefix(Br(a, i).nodes, Br(b, i).nodes)
       /\ SeqSet(Br(a, i).ticked) \subseteq SeqSet(Br(b, i).ticked)
       /\ Br(a, i).parent = Br(b, i).parent
       /\ Br(a, i).step_added = Br(b, i).step_added
       /\ SeqSet(Br(a, i).tickstep) \subseteq SeqSet(Br(b, i).tickstep)       \* a recorded tick step never changes

ClosedNeverExtended(a, b) ==
  \A i \in 0..(NBr(a) - 1) :
     Br(a, i).closed = 1 => /\ Br(b, i).nodes = Br(a, i).nodes
                            /\ Br(b, i).closed = 1
                            /\ Br(b, i).step_closed = Br(a, i).step_closed

NodesImmutable(a, b) ==
  /\ Len(a.nodes) <= Len(b.nodes)
  /\ \A j \in 1..Len(a.nodes) : a.nodes[j] = b.nodes[j]

\* every branch created by a step extends its parent's (pre-step) nodes, and
\* its parent is the branch the rule was applied to
ChildExtendsParent(a, b, e) ==
  \A i \in NBr(a)..(NBr(b) - 1) :
     /\ Br(b, i).parent = e.branch
     /\ e.branch \in 0..(NBr(a) - 1)
     /\ IsPrefix(Br(a, e.branch).nodes, Br(b, i).nodes)
     /\ Br(b, i).step_added \in a.current_step..b.current_step

Gained(a, b, i) == IF i < NBr(a) THEN SubSeq(Br(b, i).nodes, Len(Br(a, i).nodes) + 1, Len(Br(b, i).nodes))
                   ELSE SubSeq(Br(b, i).nodes, Len(Br(a, Br(b, i).parent).nodes) + 1, Len(Br(b, i).nodes))

OneHistoryEntryPerStep(a, b, e, returned) ==
  IF returned = 1
  THEN /\ b.history_len = a.history_len + 1
       /\ e.is_last = 1
       /\ e.rule # ""
  ELSE /\ b.history_len = a.history_len
       /\ b.branches = a.branches
       /\ b.finished = 1

TargetWasOpen(a, e) == e.branch \in SeqSet(a.open)

\* only the target branch and the branches created by this step change
OnlyTargetChanges(a, b, e) ==
  \A i \in 0..(NBr(a) - 1) : i # e.branch => Br(b, i).nodes = Br(a, i).nodes /\ Br(b, i).ticked = Br(a, i).ticked

\* the recorded target names a node of the target branch, and what the entry
\* says was added is what the branches gained
TargetRecorded(a, b, e) ==
  /\ (e.node >= 0 => e.node \in SeqSet(Br(a, e.branch).nodes))
  /\ SeqSet(e.nodes) \subseteq SeqSet(Br(a, e.branch).nodes)
  /\ (Len(e.adds) > 0 =>
        /\ NBr(b) = NBr(a) + Len(e.adds) - 1
        /\ LET got(i) == [j \in 1..Len(Gained(a, b, i)) |-> Core(NodeRec(b, Gained(a, b, i)[j]))]
               want(g) == [j \in 1..Len(e.adds[g]) |-> Core(e.adds[g][j])]
           IN /\ got(e.branch) = want(1)
              /\ \A g \in 2..Len(e.adds) : got(NBr(a) + g - 2) = want(g))

\* new nodes carry the step number that was current when the rule fired
NewNodesStamped(a, b) ==
  \A j \in (Len(a.nodes) + 1)..Len(b.nodes) : b.nodes[j].step \in a.current_step..b.current_step

\* MODEL-LAYER observation, not a contract of C16 (closure rules are declared
\* `ticking` but do not tick): reported as drift only, never as a violation.
TicksStamped(a, b, e) ==
  e.ticking = 1 /\ e.node >= 0 =>
     \A i \in ({e.branch} \cup (NBr(a)..(NBr(b) - 1))) : e.node \in SeqSet(Br(b, i).ticked)

NotFinishedBefore(a) == a.finished = 0

StepFail(a, b, e, returned) ==
  IF ~NotFinishedBefore(a) THEN "NotFinishedBefore"
  ELSE IF ~NodesImmutable(a, b) THEN "NodesImmutable"
  ELSE IF ~OneHistoryEntryPerStep(a, b, e, returned) THEN "OneHistoryEntryPerStep"
  ELSE IF returned = 0 THEN ""
  ELSE IF ~BranchesOnlyGrow(a, b) THEN "BranchesOnlyGrow"
  ELSE IF ~ClosedNeverExtended(a, b) THEN "ClosedNeverExtended"
  ELSE IF ~TargetWasOpen(a, e) THEN "TargetWasOpen"
  ELSE IF ~ChildExtendsParent(a, b, e) THEN "ChildExtendsParent"
  ELSE IF ~OnlyTargetChanges(a, b, e) THEN "OnlyTargetChanges"
  ELSE IF ~TargetRecorded(a, b, e) THEN "TargetRecorded"
  ELSE IF ~NewNodesStamped(a, b) THEN "NewNodesStamped"
  ELSE ""

(* ---------------- the finished tree ---------------- *)
RECURSIVE SumSeq(_)
SumSeq(q) == IF q = <<>> THEN 0 ELSE q[1] + SumSeq(Tail(q))

RECURSIVE Leaves(_)
Leaves(t) == IF t.leaf = 1 THEN <<t>> ELSE FlattenSeq([k \in 1..Len(t.children) |-> Leaves(t.children[k])])

RECURSIVE Paths(_, _)
Paths(t, prefix) ==
  IF t.leaf = 1 THEN {<<t.branch, prefix \o t.nodes>>}
  ELSE UNION {Paths(t.children[k], prefix \o t.nodes) : k \in 1..Len(t.children)}

RECURSIVE CountsOK(_)
CountsOK(t) ==
  /\ (t.leaf = 1) = (t.children = <<>>)
  /\ t.width = (IF t.leaf = 1 THEN 1 ELSE SumSeq([k \in 1..Len(t.children) |-> t.children[k].width]))
  /\ t.descendant_node_count = SumSeq([k \in 1..Len(t.children) |-> t.children[k].structure_node_count])
  /\ t.structure_node_count = Len(t.nodes) + t.descendant_node_count
  /\ \A k \in 1..Len(t.children) : CountsOK(t.children[k])

RECURSIVE AllNodes(_)
AllNodes(t) == SeqSet(t.nodes) \cup UNION {AllNodes(t.children[k]) : k \in 1..Len(t.children)}

RECURSIVE FlagsOK(_, _)
FlagsOK(t, st) ==
  /\ (t.leaf = 1 => /\ t.branch \in 0..(NBr(st) - 1)
                    /\ t.closed = Br(st, t.branch).closed /\ t.open = 1 - t.closed
                    /\ (t.closed = 1 => t.closed_step = Br(st, t.branch).step_closed))
  /\ (t.leaf = 0 => t.closed = 0 /\ t.open = 0 /\ Len(t.children) >= 2)
  /\ LET ls == Leaves(t) IN
       /\ t.has_open = (IF \E k \in 1..Len(ls) : ls[k].open = 1 THEN 1 ELSE 0)
       /\ t.has_closed = (IF \E k \in 1..Len(ls) : ls[k].closed = 1 THEN 1 ELSE 0)
  /\ \A k \in 1..Len(t.children) : FlagsOK(t.children[k], st)

TreeLeavesAreBranches(tree, st) ==
  LET ls == Leaves(tree) IN
  /\ Len(ls) = NBr(st)
  /\ {ls[k].branch : k \in 1..Len(ls)} = 0..(NBr(st) - 1)
  /\ Paths(tree, <<>>) = {<<i, Br(st, i).nodes>> : i \in 0..(NBr(st) - 1)}

TreeCountsRecomputed(tree, st) ==
  /\ CountsOK(tree)
  /\ tree.width = NBr(st)
  /\ tree.distinct_nodes = Cardinality(UNION {SeqSet(Br(st, i).nodes) : i \in 0..(NBr(st) - 1)})
  /\ tree.root = 1

TreeFlagsOK(tree, st) == FlagsOK(tree, st)

StatsEqualObservables(stats, st, tree) ==
  /\ stats.branches = NBr(st)
  /\ stats.open_branches = Len(st.open)
  /\ stats.closed_branches = NBr(st) - Len(st.open)
  /\ stats.steps = st.history_len
  /\ stats.distinct_nodes = tree.distinct_nodes
  /\ stats.result = (IF st.valid = 1 THEN "Valid" ELSE IF st.invalid = 1 THEN "Invalid"
                     ELSE IF st.completed = 1 THEN "Completed" ELSE "Unfinished")

FinishFail(fin, last) ==
  IF ~(fin.state.branches = last.branches /\ fin.state.open = last.open /\ fin.state.history_len = last.history_len)
  THEN "FinishedIsFrozen"
  ELSE IF fin.state.finished # 1 THEN "FinishedFlag"
  ELSE IF ~TreeLeavesAreBranches(fin.tree, fin.state) THEN "TreeLeavesAreBranches"
  ELSE IF ~TreeFlagsOK(fin.tree, fin.state) THEN "TreeFlagsOK"
  ELSE IF ~TreeCountsRecomputed(fin.tree, fin.state) THEN "TreeCountsRecomputed"
  ELSE IF ~StatsEqualObservables(fin.stats, fin.state, fin.tree) THEN "StatsEqualObservables"
  ELSE ""
=============================================================================
