--------------------------- MODULE TableauModalMC ---------------------------
(***************************************************************************)
(* All schedules of the MODAL propositional tableau calculus of one logic  *)
(* (worlds, access nodes, frame rules, the world limit).                   *)
(*                                                                         *)
(* As in TableauMC the rule table is extracted from the real rule objects  *)
(* (C04 driver): operator shapes as node templates over the atoms A, B;    *)
(* modal shapes from the recorded expansion with one accessible world:     *)
(* a shape whose expansion contains an access node is WITNESS-type (new    *)
(* world + instance there, the node is ticked), otherwise UNIVERSAL-type   *)
(* (one instance per accessible world, never ticked).  The frame rules and *)
(* their enabling conditions follow proof/rules.py access.*; Serial keeps  *)
(* the code's "not twice in a row on one branch" rule, and the world limit *)
(* (MaxW) puts a quit flag on the branch as MaxWorlds does.                *)
(*                                                                         *)
(* Checked in every reachable state of every schedule:                     *)
(*   Saturated   a terminal open branch without quit flag lacks no         *)
(*               universal instance and no frame pair (C02 "completed      *)
(*               means saturated")                                         *)
(*   ModelSatisfiesBranch  ... and the structure read off that branch      *)
(*               (worlds, access pairs, literal values chosen as C05       *)
(*               validates) satisfies EVERY node of the branch under the   *)
(*               spec evaluator (C02)                                      *)
(*   Termination <>Terminal                                                *)
(***************************************************************************)
EXTENDS Logics, Frames, SequencesExt, FiniteSetsExt, Json, IOUtils

Table == ndJsonDeserialize(IOEnv.RULES)
Par == JsonDeserialize(IOEnv.PAR)                 \* [logic, args, maxw]
LName == Par.logic
L == Logic(LName)
Args == Par.args
MaxW == Par.maxw
Style == L.style
Base == L.base
Cls == L.frame

SN(s, d, w) == [k |-> "s", s |-> s, d |-> d, w |-> w, w1 |-> -1, w2 |-> -1]
AN(u, v)    == [k |-> "a", s |-> <<>>, d |-> "", w |-> -1, w1 |-> u, w2 |-> v]

TrunkSet(arg) ==
  IF Style = "plain"
  THEN {SN(arg.prems[j], "", 0) : j \in 1..Len(arg.prems)} \cup {SN(NegS(arg.conc), "", 0)}
  ELSE {SN(arg.prems[j], "+", 0) : j \in 1..Len(arg.prems)} \cup {SN(arg.conc, "-", 0)}

(* ---- rule table ---- *)
IsNegS(s) == s[1] = "O" /\ s[2] = "Negation"
ShapeOf(s) == IF s[1] # "O" THEN <<>>
              ELSE IF ~IsNegS(s) THEN <<s[2], 0>>
              ELSE IF s[3][1][1] = "O" THEN <<s[3][1][2], 1>> ELSE <<>>
Operands(s) == IF IsNegS(s) THEN s[3][1][3] ELSE s[3]
IsModalShape(sh) == sh # <<>> /\ sh[1] \in ModalOps
Lookup1(kind, sh, d, k) ==
  LET I == {j \in 1..Len(Table) : Table[j].logic = LName /\ Table[j].kind = kind /\ Table[j].sym = sh[1]
                                   /\ Table[j].neg = sh[2] /\ Table[j].d = d /\ Table[j].k = k}
  IN IF I = {} THEN <<>> ELSE <<Table[CHOOSE j \in I : TRUE]>>
RECURSIVE SubstAtoms(_, _)
SubstAtoms(t, ops) == IF t[1] = "A" THEN ops[t[2] + 1]
                      ELSE <<"O", t[2], [j \in 1..Len(t[3]) |-> SubstAtoms(t[3][j], ops)]>>

OpRule(n) == IF n.k # "s" \/ ShapeOf(n.s) = <<>> \/ IsModalShape(ShapeOf(n.s)) THEN <<>>
             ELSE Lookup1("op", ShapeOf(n.s), n.d, 0)
OpInstances(n) ==
  LET r == OpRule(n)[1]  ops == Operands(n.s)
  IN [g \in 1..Len(r.exts) |-> {SN(SubstAtoms(r.exts[g][j].s, ops), r.exts[g][j].d, n.w) : j \in 1..Len(r.exts[g])}]

\* modal shapes: the recorded expansion with ONE accessible world (0R1) on the branch
ModalRule(n) == IF n.k # "s" \/ ~IsModalShape(ShapeOf(n.s)) THEN <<>> ELSE Lookup1("modal", ShapeOf(n.s), n.d, 1)
SentNodes(ext) == SelectSeq(ext, LAMBDA x : x.k = "s")
\* A rule that TICKED its node is one-shot (witness / translation type): each recorded group is instantiated once; a
\* group that holds an access node from world 0 to a world > 1 opens a NEW world and puts its sentence nodes of that
\* template world there, nodes at template world 0 stay at the target's world (the K3WQ rules fork into a witness
\* group and a translation group, the GO rules only translate).  A rule that did not tick is universal type.
IsWitness(r) == r.ticked = 1
NewWOf(ext) == {ext[j].w2 : j \in {j \in 1..Len(ext) : ext[j].k = "a" /\ ext[j].w1 = 0 /\ ext[j].w2 > 1}}
OpensWorld(r) == \E g \in 1..Len(r.exts) : NewWOf(r.exts[g]) # {}
WitnessGroups(r, ops, w2, w0) ==
  [g \in 1..Len(r.exts) |->
     LET ext == r.exts[g]
         tw == IF NewWOf(ext) = {} THEN -7 ELSE CHOOSE w \in NewWOf(ext) : TRUE
         rows == SentNodes(ext)
     IN {SN(SubstAtoms(rows[j].s, ops), rows[j].d, IF rows[j].w = tw THEN w2 ELSE w0) : j \in {j \in 1..Len(rows) : rows[j].w \in {0, tw}}}
        \cup (IF tw = -7 THEN {} ELSE {AN(w0, w2)})]
\* universal: the sentence node placed at world 1
UniversalTemplate(r) == SelectSeq(SentNodes(r.exts[1]), LAMBDA x : x.w = 1)
Inst(tmpl, ops, w) == {SN(SubstAtoms(tmpl[j].s, ops), tmpl[j].d, w) : j \in 1..Len(tmpl)}

(* ---- closure (C05-validated conditions; same world) ---- *)
Gluts == "B" \in ValsOf(Base)
Gaps == "N" \in ValsOf(Base)
Closable(nodes) ==
  \E n \in nodes : n.k = "s" /\
     IF Style = "plain" THEN SN(NegS(n.s), "", n.w) \in nodes
     ELSE \/ (n.d = "+" /\ SN(n.s, "-", n.w) \in nodes)
          \/ (~Gluts /\ n.d = "+" /\ SN(NegS(n.s), "+", n.w) \in nodes)
          \/ (~Gaps /\ n.d = "-" /\ SN(NegS(n.s), "-", n.w) \in nodes)

(* ---- branch geometry ---- *)
WorldsOf(nodes) == UNION {IF n.k = "s" THEN {n.w} ELSE {n.w1, n.w2} : n \in nodes}
AccessOf(nodes) == {<<n.w1, n.w2>> : n \in {n \in nodes : n.k = "a"}}
NewWorld(nodes) == Max(WorldsOf(nodes)) + 1

\* Reduction: the closure-type frame rules (reflexive / transitive / symmetric) are monotone and confluent, and
\* C04_Frames validates that the real rules compute exactly FrameClosure; their interleaving with the other
\* rules is incidental, so the closure is applied atomically after every move (Normalize).
CloseFrame(nodes) ==
  IF Cls \in {"reflexive", "preorder", "equivalence"}
  THEN nodes \cup {AN(p[1], p[2]) : p \in FrameClosure(Cls, WorldsOf(nodes), AccessOf(nodes))}
  ELSE nodes
Normalize(b) == [b EXCEPT !.nodes = CloseFrame(b.nodes)]

(* ---- the transition system ---- *)
VARIABLES arg, br
vars == <<arg, br>>
\* branch = [nodes, ticked, closed, quit, serialLast]
Init == /\ arg \in {Args[j] : j \in 1..Len(Args)}
        /\ br = {Normalize([nodes |-> TrunkSet(arg), ticked |-> {}, closed |-> FALSE, quit |-> FALSE, serialLast |-> FALSE])}

Live(b) == ~b.closed /\ ~b.quit

\* every action is <<kind, payload>>; Moves(b) is the set of enabled ones
OpMoves(b) == {<<"op", n>> : n \in {n \in b.nodes \ b.ticked : OpRule(n) # <<>>}}
WitMoves(b) == {<<"wit", n>> : n \in {n \in b.nodes \ b.ticked : ModalRule(n) # <<>> /\ IsWitness(ModalRule(n)[1])}}
UniMoves(b) ==
  LET UN == {n \in b.nodes : ModalRule(n) # <<>> /\ ~IsWitness(ModalRule(n)[1])}
      need == {x \in UN \X WorldsOf(b.nodes) :
                 /\ <<x[1].w, x[2]>> \in AccessOf(b.nodes)
                 /\ ~(Inst(UniversalTemplate(ModalRule(x[1])[1]), Operands(x[1].s), x[2]) \subseteq b.nodes)}
  IN {<<"uni", x[1], x[2]>> : x \in need}
SerialMoves(b) ==
  IF Cls # "serial" \/ b.serialLast \/ Cardinality(WorldsOf(b.nodes)) > MaxW THEN {}
  ELSE {<<"serial", w>> : w \in {w \in WorldsOf(b.nodes) : ~\E p \in AccessOf(b.nodes) : p[1] = w}}
\* the serial group is ordered last in the code: it is tried only when nothing else applies
Moves(b) == LET m == OpMoves(b) \cup WitMoves(b) \cup UniMoves(b)
            IN IF m # {} THEN m ELSE SerialMoves(b)

Apply(b, mv) ==
  CASE mv[1] = "op" ->
         LET inst == OpInstances(mv[2]) IN
         {[b EXCEPT !.nodes = b.nodes \cup inst[g], !.ticked = b.ticked \cup {mv[2]}, !.serialLast = FALSE] : g \in 1..Len(inst)}
    [] mv[1] = "wit" ->
         IF OpensWorld(ModalRule(mv[2])[1]) /\ Cardinality(WorldsOf(b.nodes)) > MaxW
         THEN {[b EXCEPT !.quit = TRUE]}
         ELSE LET n == mv[2]  w2 == NewWorld(b.nodes)
                  gs == WitnessGroups(ModalRule(n)[1], Operands(n.s), w2, n.w) IN
              {[b EXCEPT !.nodes = b.nodes \cup gs[g], !.ticked = b.ticked \cup {n}, !.serialLast = FALSE] : g \in 1..Len(gs)}
    [] mv[1] = "uni" ->
         {[b EXCEPT !.nodes = b.nodes \cup Inst(UniversalTemplate(ModalRule(mv[2])[1]), Operands(mv[2].s), mv[3]), !.serialLast = FALSE]}
    [] mv[1] = "serial" -> {[b EXCEPT !.nodes = b.nodes \cup {AN(mv[2], NewWorld(b.nodes))}, !.serialLast = TRUE]}

Active == {b \in br : Live(b) /\ (Closable(b.nodes) \/ Moves(b) # {})}
Next == /\ Active # {}
        /\ LET b == CHOOSE b \in Active : TRUE IN
           IF Closable(b.nodes) THEN br' = (br \ {b}) \cup {[b EXCEPT !.closed = TRUE]}
           ELSE \E mv \in Moves(b) : br' = (br \ {b}) \cup {Normalize(x) : x \in Apply(b, mv)}
        /\ UNCHANGED arg
Spec == Init /\ [][Next]_vars /\ WF_vars(Next)

Terminal == Active = {}
Done == {b \in br : Live(b)}             \* open, unflagged branches

(* ---- saturation ---- *)
FrameComplete(nodes) ==
  LET W == WorldsOf(nodes)  R == AccessOf(nodes) IN
  IF Cls = "serial" THEN \A w \in {n.w : n \in {n \in nodes : n.k = "s"}} : \E p \in R : p[1] = w
  ELSE R = FrameClosure(Cls, W, R)
Saturated == Terminal => \A b \in Done : UniMoves(b) = {} /\ FrameComplete(b.nodes)

(* ---- the structure read off an open branch ---- *)
Atoms(nodes) == LET RECURSIVE A(_)
                    A(s) == IF s[1] = "A" THEN {s} ELSE UNION {A(s[3][j]) : j \in 1..Len(s[3])}
                IN UNION {A(n.s) : n \in {n \in nodes : n.k = "s"}}
LitOK(v, s, d) == IF d = "" THEN v = "T" ELSE IF d = "+" THEN v \in DesOf(Base) ELSE v \notin DesOf(Base)
ValueAt(nodes, a, w) ==
  LET ok(v) == /\ \A d \in {"", "+", "-"} : SN(a, d, w) \in nodes => LitOK(v, a, d)
               /\ \A d \in {"", "+", "-"} : SN(NegS(a), d, w) \in nodes => LitOK(Neg(Base, v), a, d)
      cands == {v \in ValsOf(Base) : ok(v)}
  IN IF cands = {} THEN "?" ELSE IF UnassOf(Base) \in cands THEN UnassOf(Base) ELSE CHOOSE v \in cands : TRUE
ModelOf(nodes) ==
  LET W == WorldsOf(nodes)
      R == IF Cls = "any" THEN AccessOf(nodes) ELSE FrameClosure(Cls, W, AccessOf(nodes))
      cells == SetToSeq(W \X Atoms(nodes))
  IN [C |-> <<>>, R |-> SetToSeq(R), val |-> [j \in 1..Len(cells) |-> <<cells[j][1], cells[j][2], ValueAt(nodes, cells[j][2], cells[j][1])>>]]
NodeSat(M, n) == IF n.k = "a" THEN \E j \in 1..Len(M.R) : M.R[j] = <<n.w1, n.w2>>
                 ELSE SatN(L, M, [s |-> n.s, d |-> n.d, w |-> n.w])
ModelSatisfiesBranch == Terminal => \A b \in Done : LET M == ModelOf(b.nodes) IN \A n \in b.nodes : NodeSat(M, n)

Termination == <>Terminal
=============================================================================
