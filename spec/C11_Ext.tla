------------------------------ MODULE C11_Ext ------------------------------
(***************************************************************************)
(* C11: declared logic extensions preserve validity.                       *)
(* A case = one argument with the recorded outcome in every logic, plus    *)
(* the declared pairs <<stronger, weaker>> (read from the package at run   *)
(* time: `weaker in stronger.Meta.extension_of`, transitively closed here). *)
(*   ExtensionMonotone      valid in weaker  =>  not refuted in stronger   *)
(*   ExtensionExactOnProp   ... and on the propositional fragment valid    *)
(***************************************************************************)
EXTENDS Consequence, Frames, SequencesExt, Json, IOUtils

Cases == ndJsonDeserialize(IOEnv.CASES)
Decl == JsonDeserialize(IOEnv.PAIRS).pairs            \* seq of <<stronger, weaker>>
DeclSet == {<<Decl[j][1], Decl[j][2]>> : j \in 1..Len(Decl)}
Pairs == IF JsonDeserialize(IOEnv.PAIRS).transitive = 1 THEN TC(DeclSet) ELSE DeclSet

OutcomeIn(c, L) == LET I == {j \in 1..Len(c.runs) : c.runs[j].logic = L}
                   IN IF I = {} THEN "absent" ELSE c.runs[CHOOSE j \in I : TRUE].outcome
RulesIn(c, L) == LET I == {j \in 1..Len(c.runs) : c.runs[j].logic = L}
                 IN IF I = {} THEN <<>> ELSE c.runs[CHOOSE j \in I : TRUE].rules

Failures(c) ==
  LET badp == {p \in Pairs :
                 \* outcomes cut by the harness step cap / watchdog ("limit") are no verdicts and claim nothing;
                 \* that propositional arguments never hit a limit of the prover's own is C03's clause
                 OutcomeIn(c, p[2]) = "valid" /\ OutcomeIn(c, p[1]) = "invalid"}
      q == SetToSeq(badp)
  IN [j \in 1..Len(q) |-> [id |-> c.id, argstr |-> c.argstr, stronger |-> q[j][1], weaker |-> q[j][2],
                            clause |-> IF c.propositional = 1 THEN "ExtensionExactOnProp" ELSE "ExtensionMonotone",
                            outcome_stronger |-> OutcomeIn(c, q[j][1]), declared |-> q[j] \in DeclSet,
                            rules_weaker |-> RulesIn(c, q[j][2]), rules_stronger |-> RulesIn(c, q[j][1])]]

VARIABLES i, bad
B == INSTANCE Batch
Spec == B!BSpec
Publish == B!BPublish
Post == B!BPost
=============================================================================
