------------------------------- MODULE Models -------------------------------
(***************************************************************************)
(* The bounded universe of structures of a logic over the vocabulary of    *)
(* an argument: used for the counter-model search of C01 and for the       *)
(* consequence-level checks.                                               *)
(***************************************************************************)
EXTENDS Logics, Frames, SequencesExt, FiniteSetsExt

SeqToSet(q) == {q[j] : j \in 1..Len(q)}

(* ---- vocabulary walkers ---- *)
RECURSIVE AtomsOfS(_, _), PredsOfS(_, _), ConstsOfS(_), OpaquesOfS(_, _), HasFreeVar(_), BadOpaque(_, _)

IsOpaque(c, s) == Opaque(c, s)

AtomsOfS(c, s) ==
  IF IsOpaque(c, s) THEN {}
  ELSE CASE s[1] = "A" -> {s}
         [] s[1] = "P" -> {}
         [] s[1] = "Q" -> AtomsOfS(c, s[4])
         [] OTHER -> UNION {AtomsOfS(c, s[3][j]) : j \in 1..Len(s[3])}

PredsOfS(c, s) ==
  IF IsOpaque(c, s) THEN {}
  ELSE CASE s[1] = "A" -> {}
         [] s[1] = "P" -> {s[2]}
         [] s[1] = "Q" -> PredsOfS(c, s[4])
         [] OTHER -> UNION {PredsOfS(c, s[3][j]) : j \in 1..Len(s[3])}

ConstsOfS(s) ==
  CASE s[1] = "A" -> {}
    [] s[1] = "P" -> {s[3][j] : j \in {j \in 1..Len(s[3]) : s[3][j][1] = "c"}}
    [] s[1] = "Q" -> ConstsOfS(s[4])
    [] OTHER -> UNION {ConstsOfS(s[3][j]) : j \in 1..Len(s[3])}

HasFreeVar(s) ==     \* any variable occurrence at all (used only on opaque subsentences found under a binder)
  CASE s[1] = "A" -> FALSE
    [] s[1] = "P" -> \E j \in 1..Len(s[3]) : s[3][j][1] = "v"
    [] s[1] = "Q" -> HasFreeVar(s[4])
    [] OTHER -> \E j \in 1..Len(s[3]) : HasFreeVar(s[3][j])

OpaquesOfS(c, s) ==
  IF IsOpaque(c, s) THEN {s}
  ELSE CASE s[1] \in {"A", "P"} -> {}
         [] s[1] = "Q" -> OpaquesOfS(c, s[4])
         [] OTHER -> UNION {OpaquesOfS(c, s[3][j]) : j \in 1..Len(s[3])}

\* an opaque sentence below an interpreted quantifier would need one cell per instance: not searched
BadOpaque(c, s) ==
  IF IsOpaque(c, s) THEN FALSE
  ELSE CASE s[1] \in {"A", "P"} -> FALSE
         [] s[1] = "Q" -> OpaquesOfS(c, s[4]) # {}
         [] OTHER -> \E j \in 1..Len(s[3]) : BadOpaque(c, s[3][j])

RECURSIVE HasModal(_, _), HasQuant(_, _)
HasModal(c, s) == IF IsOpaque(c, s) THEN FALSE
                  ELSE CASE s[1] \in {"A", "P"} -> FALSE
                         [] s[1] = "Q" -> HasModal(c, s[4])
                         [] OTHER -> s[2] \in ModalOps \/ \E j \in 1..Len(s[3]) : HasModal(c, s[3][j])
HasQuant(c, s) == IF IsOpaque(c, s) THEN FALSE
                  ELSE CASE s[1] \in {"A", "P"} -> FALSE
                         [] s[1] = "Q" -> TRUE
                         [] OTHER -> \E j \in 1..Len(s[3]) : HasQuant(c, s[3][j])

ArgSents(arg) == SeqToSet(arg.prems) \cup {arg.conc}

Vocab(c, arg) ==
  LET S == ArgSents(arg) IN
  [atoms   |-> UNION {AtomsOfS(c, s) : s \in S},
   preds   |-> UNION {PredsOfS(c, s) : s \in S},
   consts  |-> UNION {ConstsOfS(s) : s \in S},
   opaques |-> UNION {OpaquesOfS(c, s) : s \in S},
   modal   |-> \E s \in S : HasModal(c, s),
   quant   |-> \E s \in S : HasQuant(c, s),
   bad     |-> \E s \in S : BadOpaque(c, s)]

(* ---- cells ---- *)
Tuples(C, n) == [1..n -> C]
CellSet(v, W, C) ==
  {<<w, a>> : w \in W, a \in v.atoms \cup v.opaques}
  \cup UNION {{<<w, <<"P", p, t>>>> : w \in W, t \in Tuples(C, p[3])} : p \in v.preds}

(* ---- classical identity / existence ---- *)
IdP == <<-1, 0, 2>>
ExP == <<-2, 0, 1>>
ValAt(M, w, s, d) == Lookup(M, w, s, d)

ClassicalOK(v, M, W, C) ==
  \A w \in W :
    /\ (ExP \in v.preds => \A a \in C : ValAt(M, w, <<"P", ExP, <<a>>>>, "F") = "T")
    /\ (IdP \in v.preds =>
          LET eq(a, b) == ValAt(M, w, <<"P", IdP, <<a, b>>>>, "F") = "T" IN
          /\ \A a \in C : eq(a, a)
          /\ \A a, b \in C : eq(a, b) => eq(b, a)
          /\ \A a, b, d \in C : eq(a, b) /\ eq(b, d) => eq(a, d)
          /\ \A p \in v.preds : \A t \in Tuples(C, p[3]) : \A j \in 1..p[3] : \A b \in C :
                eq(t[j], b) => ValAt(M, w, <<"P", p, t>>, "F") = ValAt(M, w, <<"P", p, [t EXCEPT ![j] = b]>>, "F"))

(* ---- the universe ---- *)
FramesOver(cls, W) == {R \in SUBSET (W \X W) : FrameOKSet(cls, W, R)}

\* <<>> if no structure over (W, C) is a counter-model, else <<M>> for one that is.
\* The bounds (W, C) are chosen by the harness under a model budget; bounded
\* search can miss counter-models, it cannot invent one.
CounterModel(c, arg, W, C) ==
  LET v == Vocab(c, arg)
      cells == SetToSeq(CellSet(v, W, C))
      n == Len(cells)
      Cq == SetToSeq(C)
      classical == c.base = "CPL" /\ (IdP \in v.preds \/ ExP \in v.preds)
      Rs == IF v.modal THEN FramesOver(c.frame, W) ELSE {Id(W)}
      MkS(R, f) == [C |-> Cq, R |-> SetToSeq(R), val |-> [j \in 1..n |-> <<cells[j][1], cells[j][2], f[j]>>]]
      Good(R, f) == LET M == MkS(R, f) IN (classical => ClassicalOK(v, M, W, C)) /\ IsCountermodel(c, M, arg)
      S == Rs \X [1..n -> ValsOf(c.base)]
  IN IF \E x \in S : Good(x[1], x[2])
     THEN LET x == CHOOSE x \in S : Good(x[1], x[2]) IN <<MkS(x[1], x[2])>>
     ELSE <<>>
=============================================================================
