----------------------------- MODULE Lifecycle -----------------------------
(***************************************************************************)
(* C17, model checking of the design (LifecycleCore.tla holds the model    *)
(* function Do and the contract clauses).                                  *)
(***************************************************************************)
EXTENDS LifecycleCore

(***************************************************************************)
(* The design as a transition system: all interleavings of the calls, for  *)
(* every configuration with n <= MaxN.                                     *)
(***************************************************************************)
CONSTANT MaxN
Configs == {[mode |-> m, n |-> n, valid |-> v, limit |-> l, tmo |-> t] :
              m \in {"auto", "manual", "noarg"}, n \in 0..MaxN, v \in {0, 1},
              l \in (-2)..(MaxN + 1), t \in {0, 1}}
           \cup {[mode |-> "hand", n |-> n, valid |-> -1, limit |-> l, tmo |-> t] :
                   n \in 0..MaxN, l \in (-2)..(MaxN + 1), t \in {0, 1}}
HandCalls == {"step", "finish", "build"}     \* what is driven on a tableau with hand-made branches

VARIABLES cfg, st, last       \* last = [a, call, ret] of the transition just taken (for the action clauses)
vars == <<cfg, st, last>>

MInit == /\ cfg \in {c \in Configs : c.limit <= c.n + 1}
         /\ st = Init0(cfg)
         /\ last = [a |-> Obs(cfg, st), call |-> "", ret |-> "", started |-> st.started, ran |-> st.ran]
MNext == \E call \in (IF cfg.mode = "hand" THEN HandCalls ELSE Calls) :
           LET r == Do(cfg, st, call) IN
           /\ st' = r.st
           /\ last' = [a |-> Obs(cfg, st), call |-> call, ret |-> r.ret, started |-> st.started, ran |-> st.ran]
           /\ UNCHANGED cfg
MSpec == MInit /\ [][MNext]_vars

\* every transition of the model satisfies every contract clause
ModelSatisfiesContracts ==
  last.call = "" \/ ClauseFail(cfg, st.hasarg, last.started, last.ran, last.a, Obs(cfg, st), last.call, last.ret) = ""
TypeOK == st.k \in 0..cfg.n /\ (st.timedout => st.finished) /\ (st.k > 0 => (st.trunk \/ cfg.mode = "hand") /\ st.started)
=============================================================================
