----------------------------- MODULE Semantics -----------------------------
(***************************************************************************)
(* The semantic oracle: truth values, truth tables of the 13 truth-       *)
(* functional bases, generalised conjunction/disjunction used by the      *)
(* quantifier and modal clauses, and the recursive evaluator.             *)
(*                                                                         *)
(* Written from the definitions in the documentation prose (doc/logics)   *)
(* and the cited literature -- NOT from pytableaux/models/__init__.py.    *)
(*   told-true / told-false reading of N and B  (Belnap 1977, Priest INCL *)
(*   ch. 7-8): a value is a pair (told true?, told false?)                *)
(*   K3W/B3E: N infectious (Bochvar 1938; Bergmann 2008 ch. 5)            *)
(*   B3E external assertion, GO "crunch" (Bochvar; Owings 2012)           *)
(*   L3 (Lukasiewicz 1920), G3 (Goedel 1932 / Heyting 1930),              *)
(*   RM3 (Sobocinski 1952), MH/NH (Caret 2017), P3 (Post 1921),           *)
(*   GO (Owings 2012, doc/logics/go.rst).                                 *)
(***************************************************************************)
EXTENDS Naturals, Integers, Sequences, FiniteSets, TLC

Vals4 == {"F", "N", "B", "T"}

TT(v) == v \in {"T", "B"}            \* told true
FF(v) == v \in {"F", "B"}            \* told false
Mk(t, f) == IF t /\ f THEN "B" ELSE IF t THEN "T" ELSE IF f THEN "F" ELSE "N"

Bases == {"CPL", "FDE", "K3", "LP", "L3", "RM3", "K3W", "B3E", "G3", "MH", "NH", "GO", "P3"}

ValsOf(b) == CASE b = "CPL" -> {"F", "T"}
               [] b = "FDE" -> {"F", "N", "B", "T"}
               [] b \in {"LP", "RM3", "NH"} -> {"F", "B", "T"}
               [] OTHER -> {"F", "N", "T"}
DesOf(b) == ValsOf(b) \cap {"T", "B"}
UnassOf(b) == IF "N" \in ValsOf(b) THEN "N" ELSE "F"

(* Kleene / Belnap lattice connectives *)
NegK(a)    == Mk(FF(a), TT(a))
AndK(a, b) == Mk(TT(a) /\ TT(b), FF(a) \/ FF(b))
OrK(a, b)  == Mk(TT(a) \/ TT(b), FF(a) /\ FF(b))
(* weak Kleene *)
AndW(a, b) == IF a = "N" \/ b = "N" THEN "N" ELSE AndK(a, b)
OrW(a, b)  == IF a = "N" \/ b = "N" THEN "N" ELSE OrK(a, b)
(* external assertion / crunch *)
Ext(a) == IF a = "T" THEN "T" ELSE "F"

Neg(b, a) == CASE b = "G3" -> (IF a = "F" THEN "T" ELSE "F")
               [] b = "P3" -> (CASE a = "T" -> "N" [] a = "N" -> "F" [] OTHER -> "T")
               [] OTHER -> NegK(a)
Dis(b, x, y) == CASE b \in {"K3W", "B3E"} -> OrW(x, y)
                  [] b = "MH" -> (IF x = "N" /\ y = "N" THEN "F" ELSE OrK(x, y))
                  [] b = "GO" -> OrK(Ext(x), Ext(y))
                  [] OTHER -> OrK(x, y)
Con(b, x, y) == CASE b \in {"K3W", "B3E"} -> AndW(x, y)
                  [] b = "NH" -> (IF x = "B" /\ y = "B" THEN "T" ELSE AndK(x, y))
                  [] b = "GO" -> AndK(Ext(x), Ext(y))
                  [] b = "P3" -> Neg(b, Dis(b, Neg(b, x), Neg(b, y)))
                  [] OTHER -> AndK(x, y)
Asr(b, x) == IF b \in {"B3E", "GO"} THEN Ext(x) ELSE x
MCnd(b, x, y) == Dis(b, Neg(b, x), y)
MBic(b, x, y) == Con(b, MCnd(b, x, y), MCnd(b, y, x))
Rk(v) == CASE v = "F" -> 0 [] v \in {"N", "B"} -> 1 [] v = "T" -> 2
Cnd(b, x, y) ==
  CASE b = "L3"  -> (IF Rk(x) <= Rk(y) THEN "T" ELSE IF x = "T" /\ y = "F" THEN "F" ELSE "N")
    [] b = "G3"  -> (IF Rk(x) <= Rk(y) THEN "T" ELSE y)
    [] b = "RM3" -> (IF Rk(x) > Rk(y) THEN "F" ELSE IF x = "B" /\ y = "B" THEN "B" ELSE "T")
    [] b = "B3E" -> MCnd(b, Ext(x), Ext(y))
    [] b = "MH"  -> (IF x = "T" /\ y # "T" THEN "F" ELSE "T")
    [] b = "NH"  -> (IF x # "F" /\ y = "F" THEN "F" ELSE "T")
    [] b = "GO"  -> Dis(b, MCnd(b, x, y),
                        Con(b, Neg(b, Dis(b, x, Neg(b, x))), Neg(b, Dis(b, y, Neg(b, y)))))
    [] OTHER     -> MCnd(b, x, y)
Bic(b, x, y) == Con(b, Cnd(b, x, y), Cnd(b, y, x))

TruthFunctional == {"Assertion", "Negation", "Conjunction", "Disjunction", "MaterialConditional",
                    "MaterialBiconditional", "Conditional", "Biconditional"}
ModalOps == {"Possibility", "Necessity"}
ArityOf(op) == IF op \in {"Assertion", "Negation", "Possibility", "Necessity"} THEN 1 ELSE 2

(* The truth table: op applied to a tuple of values *)
Tab(b, op, a) ==
  CASE op = "Assertion"             -> Asr(b, a[1])
    [] op = "Negation"              -> Neg(b, a[1])
    [] op = "Conjunction"           -> Con(b, a[1], a[2])
    [] op = "Disjunction"           -> Dis(b, a[1], a[2])
    [] op = "MaterialConditional"   -> MCnd(b, a[1], a[2])
    [] op = "MaterialBiconditional" -> MBic(b, a[1], a[2])
    [] op = "Conditional"           -> Cnd(b, a[1], a[2])
    [] op = "Biconditional"         -> Bic(b, a[1], a[2])

(***************************************************************************)
(* Self-checks evaluated whenever TLC loads the module.                    *)
(***************************************************************************)
ASSUME TablesClosed ==
  \A b \in Bases : \A op \in TruthFunctional :
    \A a \in [1..ArityOf(op) -> ValsOf(b)] : Tab(b, op, a) \in ValsOf(b)

\* every base is classical on {T,F} except where the documentation says
\* otherwise (P3's cyclic negation)
ASSUME ClassicalOnTF ==
  \A b \in Bases \ {"P3"} : \A x, y \in {"T", "F"} :
     /\ Neg(b, x) = (IF x = "T" THEN "F" ELSE "T")
     /\ Con(b, x, y) = (IF x = "T" /\ y = "T" THEN "T" ELSE "F")
     /\ Dis(b, x, y) = (IF x = "T" \/ y = "T" THEN "T" ELSE "F")
     /\ Cnd(b, x, y) = (IF x = "T" /\ y = "F" THEN "F" ELSE "T")
     /\ MCnd(b, x, y) = Cnd(b, x, y)

\* the generalisers fold a *set*: the folded connectives must be ACI
ASSUME FoldersACI ==
  \A x, y, z \in Vals4 :
     /\ AndK(x, y) = AndK(y, x) /\ OrK(x, y) = OrK(y, x)
     /\ AndK(x, AndK(y, z)) = AndK(AndK(x, y), z) /\ OrK(x, OrK(y, z)) = OrK(OrK(x, y), z)
     /\ AndK(x, x) = x /\ OrK(x, x) = x
     /\ AndW(x, y) = AndW(y, x) /\ OrW(x, y) = OrW(y, x)
     /\ AndW(x, AndW(y, z)) = AndW(AndW(x, y), z) /\ OrW(x, OrW(y, z)) = OrW(OrW(x, y), z)
     /\ AndW(x, x) = x /\ OrW(x, x) = x

(***************************************************************************)
(* Generalised conjunction / disjunction over a set of values.             *)
(* clause names:  "minmax" (Kleene/Belnap meet+join), "k3wq" (weak-Kleene  *)
(* generalised, doc k3wq.rst), "mh", "nh" (Caret), "go" (crunched).        *)
(***************************************************************************)
RECURSIVE FoldS(_, _, _)
FoldS(f, S, acc) ==
  IF S = {} THEN acc
  ELSE LET x == CHOOSE x \in S : TRUE IN
       FoldS(f, S \ {x}, CASE f = "andk" -> AndK(acc, x) [] f = "ork" -> OrK(acc, x)
                             [] f = "andw" -> AndW(acc, x) [] OTHER -> OrW(acc, x))

GAll(cl, S) == CASE cl = "k3wq" -> FoldS("andw", S, "T")
                 [] cl = "go"   -> FoldS("andk", {Ext(v) : v \in S}, "T")
                 [] cl = "nh"   -> (IF "F" \in S THEN "F" ELSE IF "B" \in S /\ "T" \in S THEN "B" ELSE "T")
                 [] OTHER       -> FoldS("andk", S, "T")
GSome(cl, S) == CASE cl = "k3wq" -> FoldS("orw", S, "F")
                  [] cl = "go"   -> FoldS("ork", {Ext(v) : v \in S}, "F")
                  [] cl = "mh"   -> (IF "T" \in S THEN "T" ELSE IF "N" \in S /\ "F" \in S THEN "N" ELSE "F")
                  [] OTHER       -> FoldS("ork", S, "F")

(***************************************************************************)
(* Syntax helpers (sentence encoding of DESIGN.md 2.2)                     *)
(***************************************************************************)
RECURSIVE Sub(_, _, _)
\* replace parameter old by new in predications
Sub(s, new, old) ==
  CASE s[1] = "A" -> s
    [] s[1] = "P" -> <<"P", s[2], [i \in 1..Len(s[3]) |-> IF s[3][i] = old THEN new ELSE s[3][i]]>>
    [] s[1] = "Q" -> <<"Q", s[2], s[3], Sub(s[4], new, old)>>
    [] OTHER      -> <<"O", s[2], [i \in 1..Len(s[3]) |-> Sub(s[3][i], new, old)]>>

NegS(s) == <<"O", "Negation", <<s>>>>

(***************************************************************************)
(* Structures and the evaluator.                                           *)
(*   c : logic record [base, qc, mc, modal, quantified, unass, ...]        *)
(*   M : [C |-> seq of constants, R |-> seq of <<w1,w2>>,                  *)
(*        val |-> seq of <<world, literal sentence, value>>]               *)
(* Literal sentences: atoms, predications on constants, and sentences the  *)
(* logic does not interpret (quantified in a non-quantified logic, modal  *)
(* in a non-modal logic), which are evaluated as atoms.                    *)
(***************************************************************************)
Lookup(M, w, s, dflt) ==
  LET I == {i \in 1..Len(M.val) : M.val[i][1] = w /\ M.val[i][2] = s}
  IN IF I = {} THEN dflt ELSE M.val[CHOOSE i \in I : TRUE][3]

Opaque(c, s) == \/ (s[1] = "Q" /\ ~c.quantified)
                \/ (s[1] = "O" /\ s[2] \in ModalOps /\ ~c.modal)

Succ(M, w) == {M.R[i][2] : i \in {i \in 1..Len(M.R) : M.R[i][1] = w}}

RECURSIVE Eval(_, _, _, _)
Eval(c, M, s, w) ==
  IF Opaque(c, s) THEN Lookup(M, w, s, c.unass)
  ELSE CASE s[1] = "A" -> Lookup(M, w, s, c.unass)
         [] s[1] = "P" -> Lookup(M, w, s, c.unass)
         [] s[1] = "Q" ->
              LET vs == {Eval(c, M, Sub(s[4], M.C[i], s[3]), w) : i \in 1..Len(M.C)}
              IN IF s[2] = "Universal" THEN GAll(c.qc, vs) ELSE GSome(c.qc, vs)
         [] s[2] = "Necessity"   -> GAll(c.mc, {Eval(c, M, s[3][1], u) : u \in Succ(M, w)})
         [] s[2] = "Possibility" -> GSome(c.mc, {Eval(c, M, s[3][1], u) : u \in Succ(M, w)})
         [] OTHER -> Tab(c.base, s[2], [i \in 1..Len(s[3]) |-> Eval(c, M, s[3][i], w)])

\* does the spec evaluation of s at w combine an N with a B anywhere (FDE family)?
RECURSIVE MixesNB(_, _, _, _)
MixesNB(L, M, s, w) ==
  IF Opaque(L, s) \/ s[1] \in {"A", "P"} THEN FALSE
  ELSE IF s[1] = "Q"
       THEN LET vs == {Eval(L, M, Sub(s[4], M.C[k], s[3]), w) : k \in 1..Len(M.C)}
            IN ("N" \in vs /\ "B" \in vs) \/ \E k \in 1..Len(M.C) : MixesNB(L, M, Sub(s[4], M.C[k], s[3]), w)
  ELSE IF s[2] \in ModalOps
       THEN LET vs == {Eval(L, M, s[3][1], u) : u \in Succ(M, w)}
            IN ("N" \in vs /\ "B" \in vs) \/ \E u \in Succ(M, w) : MixesNB(L, M, s[3][1], u)
  ELSE LET vs == {Eval(L, M, s[3][k], w) : k \in 1..Len(s[3])}
       IN ("N" \in vs /\ "B" \in vs) \/ \E k \in 1..Len(s[3]) : MixesNB(L, M, s[3][k], w)

(* node satisfaction; node record of DESIGN.md 2.2 *)
SatN(c, M, n) ==
  LET v == Eval(c, M, n.s, IF n.w < 0 THEN 0 ELSE n.w)
  IN IF n.d = "" THEN v = "T"
     ELSE IF n.d = "+" THEN v \in DesOf(c.base) ELSE v \notin DesOf(c.base)

AccN(M, n) == \E i \in 1..Len(M.R) : M.R[i] = <<n.w1, n.w2>>

SatNode(c, M, n) == CASE n.k = "s" -> SatN(c, M, n)
                      [] n.k = "a" -> AccN(M, n)
                      [] OTHER -> TRUE

IsCountermodel(c, M, arg) ==
  /\ \A i \in 1..Len(arg.prems) : Eval(c, M, arg.prems[i], 0) \in DesOf(c.base)
  /\ Eval(c, M, arg.conc, 0) \notin DesOf(c.base)

(***************************************************************************)
(* Frame classes                                                           *)
(***************************************************************************)
RSet(M) == {M.R[i] : i \in 1..Len(M.R)}

FrameOKSet(cls, W, R) ==
  CASE cls = "serial"      -> \A w \in W : \E u \in W : <<w, u>> \in R
    [] cls = "reflexive"   -> \A w \in W : <<w, w>> \in R
    [] cls = "preorder"    -> /\ \A w \in W : <<w, w>> \in R
                              /\ \A p, q \in R : p[2] = q[1] => <<p[1], q[2]>> \in R
    [] cls = "equivalence" -> /\ \A w \in W : <<w, w>> \in R
                              /\ \A p, q \in R : p[2] = q[1] => <<p[1], q[2]>> \in R
                              /\ \A p \in R : <<p[2], p[1]>> \in R
    [] OTHER -> TRUE

=============================================================================
