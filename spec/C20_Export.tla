----------------------------- MODULE C20_Export -----------------------------
(***************************************************************************)
(* C20: the published description of a model says what the model          *)
(* evaluates.  A case carries finished models (built through the API or    *)
(* read from open branches), each exported twice by get_data():            *)
(*   Worlds           listed worlds = the model's worlds                   *)
(*   Access           listed pairs  = the model's access pairs             *)
(*   Letters/Opaques  every stored letter / uninterpreted sentence is      *)
(*                    listed at its world with the value Eval gives it     *)
(*   Extension        tuple in P+  <=> Eval(P tuple) in {T, B}             *)
(*   AntiExtension    tuple in P-  <=> Eval(P tuple) in {F, B}  (many-     *)
(*                    valued logics), over ALL tuples of model constants   *)
(*   Sorted, Deterministic                                                 *)
(***************************************************************************)
EXTENDS Models, Json, IOUtils

Cases == ndJsonDeserialize(IOEnv.CASES)

ModelFailures(c, mm) ==
  LET L == Logic(c.logic)
      M == [C |-> mm.M.C, R |-> mm.M.R, val |-> mm.M.val]
      D == mm.data
      W == IF L.modal THEN SeqToSet(mm.M.W) ELSE {0}
      Cs == SeqToSet(mm.M.C)
      many == L.base # "CPL"
      F(clause, detail) == [id |-> c.id, logic |-> c.logic, clause |-> clause, detail |-> detail]
      frameOf(w) == LET I == {k \in 1..Len(D.frames) : D.frames[k].w = w} IN D.frames[CHOOSE k \in I : TRUE]
      hasFrame(w) == \E k \in 1..Len(D.frames) : D.frames[k].w = w
      cellsAt(w, kind) == {mm.M.val[j] : j \in {j \in 1..Len(mm.M.val) : mm.M.val[j][1] = w /\
                              (IF kind = "A" THEN mm.M.val[j][2][1] = "A"
                               ELSE mm.M.val[j][2][1] \notin {"A", "P"})}}
      listed(fr, kind) == SeqToSet(IF kind = "A" THEN fr.atomics ELSE fr.opaques)
      predsOf(fr) == {fr.preds[k].pred : k \in 1..Len(fr.preds)}
                     \cup {mm.M.val[j][2][2] : j \in {j \in 1..Len(mm.M.val) : mm.M.val[j][2][1] = "P"}}
      part(fr, p, sign) == UNION {SeqToSet(fr.preds[k].tuples) : k \in {k \in 1..Len(fr.preds) :
                                       fr.preds[k].pred = p /\ fr.preds[k].part = sign}}
      hasPart(fr, p, sign) == \E k \in 1..Len(fr.preds) : fr.preds[k].pred = p /\ fr.preds[k].part = sign
      sentBad(w, kind) ==
        LET fr == frameOf(w) IN
        \/ \E x \in listed(fr, kind) : x[2] # Eval(L, M, x[1], w)
        \/ \E cl \in cellsAt(w, kind) : ~\E x \in listed(fr, kind) : x[1] = cl[2]
      extBad(w) ==
        LET fr == frameOf(w) IN
        \E p \in predsOf(fr) : \E t \in Tuples(Cs, p[3]) :
           (t \in part(fr, p, "+")) # (Eval(L, M, <<"P", p, t>>, w) \in {"T", "B"})
      antiBad(w) ==
        LET fr == frameOf(w) IN
        \E p \in predsOf(fr) : \E t \in Tuples(Cs, p[3]) :
           (t \in part(fr, p, "-")) # (Eval(L, M, <<"P", p, t>>, w) \in {"F", "B"})
      extra(w) ==      \* listed tuples must be tuples of model constants of the right arity
        LET fr == frameOf(w) IN
        \E k \in 1..Len(fr.preds) : \E t \in SeqToSet(fr.preds[k].tuples) :
           Len(t) # fr.preds[k].pred[3] \/ ~(SeqToSet(t) \subseteq Cs)
  IN IF mm.data_err # "" THEN <<F("ExportRaised", mm.data_err)>>
     ELSE (IF SeqToSet(D.worlds) # W \/ Len(D.worlds) # Cardinality(W) THEN <<F("Worlds", ToString(<<D.worlds, W>>))>> ELSE <<>>)
       \o (IF L.modal /\ (SeqToSet(D.access) # SeqToSet(mm.M.R) \/ Len(D.access) # Len(mm.M.R)) THEN <<F("Access", ToString(D.access))>> ELSE <<>>)
       \o (IF \E w \in W : ~hasFrame(w) THEN <<F("FramePerWorld", "")>>
           ELSE (IF \E w \in W : sentBad(w, "A") THEN <<F("Letters", "")>> ELSE <<>>)
             \o (IF \E w \in W : sentBad(w, "O") THEN <<F("Opaques", "")>> ELSE <<>>)
             \o (IF \E w \in W : extra(w) THEN <<F("TupleOutsideModel", "")>> ELSE <<>>)
             \o (IF \E w \in W : extBad(w) THEN <<F("Extension", "")>> ELSE <<>>)
             \o (IF many /\ \E w \in W : antiBad(w) THEN <<F("AntiExtension", "")>> ELSE <<>>))
       \o (IF D.sorted_ok # 1 THEN <<F("Sorted", "")>> ELSE <<>>)
       \o (IF mm.data_same # 1 THEN <<F("Deterministic", "")>> ELSE <<>>)

Failures(c) == FlattenSeq([j \in 1..Len(c.models) |-> ModelFailures(c, c.models[j])])

VARIABLES i, bad
B == INSTANCE Batch
Spec == B!BSpec
Publish == B!BPublish
Post == B!BPost
=============================================================================
