----------------------------- MODULE C06_Trace -----------------------------
(***************************************************************************)
(* C06 conformance.  Generator: every history of appends and copies up to  *)
(* DEPTH over the node kinds of BranchFresh.tla.  Validator: after every   *)
(* operation on real Branch objects, the recorded constants / worlds /     *)
(* new_constant() / new_world() of every live branch satisfy Fresh and     *)
(* CopyIndependent (contract), and equal the model layer's state (drift).  *)
(* A second record kind validates every witness request intercepted during *)
(* real proofs.                                                            *)
(***************************************************************************)
EXTENDS BranchFreshCore, SequencesExt, Json, IOUtils

Depth == JsonDeserialize(IOEnv.PAR).depth
MaxB == 3

RECURSIVE Hist(_)
\* histories of exactly n operations, as <<ops, number of branches>>
Hist(n) == IF n = 0 THEN {<<<<>>, 1>>}
           ELSE UNION {{<<Append(h[1], op), IF op.op = "copy" THEN h[2] + 1 ELSE h[2]>> :
                          op \in {o \in Ops(h[2]) : o.op = "append" \/ h[2] < MaxB}} : h \in Hist(n - 1)}
GenPost == LET seq == SetToSeq(Hist(Depth))
               out == [j \in 1..Len(seq) |-> [id |-> j, ops |-> seq[j][1]]]
           IN /\ TLCSet(2, 0)
              /\ PrintT(<<"GENERATED", Len(seq)>>)
              /\ ndJsonSerialize(IOEnv.OUT, out)

Cases == ndJsonDeserialize(IOEnv.CASES)

SeqToSet(q) == {q[j] : j \in 1..Len(q)}
RObs(o) == [cs |-> SeqToSet(o.cs), ws |-> SeqToSet(o.ws), offerC |-> o.offerC, offerW |-> o.offerW]
RState(obs) == [j \in 1..Len(obs) |-> RObs(obs[j])]

RECURSIVE Walk(_, _, _, _)
Walk(tr, model, a, j) ==
  IF j > Len(tr.ops) THEN <<>>
  ELSE LET ev == tr.ops[j]
           op == [op |-> ev.op, b |-> ev.b, k |-> ev.k]
           b == RState(ev.obs)
           m == ApplyOp(model, op)
           F(kind, clause) == <<[id |-> tr.id, kind |-> kind, clause |-> clause, event |-> j, op |-> op,
                                 obs |-> ev.obs]>>
       IN IF ev.err # "" THEN F("violation", "Raised")
          ELSE IF ~Fresh(b) THEN F("violation", IF \E x \in 1..Len(b) : b[x].offerC \in b[x].cs THEN "FreshConstant" ELSE "FreshWorld")
          ELSE IF ~CopyIndependent(a, b, op) THEN F("violation", "CopyIndependent")
          ELSE IF \E x \in 1..Len(b) : b[x].cs # m[x].cs \/ b[x].ws # m[x].ws THEN F("violation", "ConstantsWorldsTracked")
          ELSE IF b # m THEN F("drift", "ModelStep")
          ELSE Walk(tr, m, b, j + 1)

\* witness record: what a witness rule was offered during a real proof
WitnessFail(c) ==
  IF c.kind = "const" /\ c.item \in SeqToSet(c.present) THEN "WitnessConstantFresh"
  ELSE IF c.kind = "world" /\ c.w \in SeqToSet(c.presentw) THEN "WitnessWorldFresh"
  ELSE ""

\* step record: one rule application of a real proof.  A rule other than the frame rules that adds an access
\* pair introduces a witness world: it must not be on the branch already.
FrameRuleNames == {"Reflexive", "Transitive", "Symmetric"}
StepFail(c) ==
  IF c.rule \notin FrameRuleNames /\
     \E g \in 1..Len(c.adds) : \E j \in 1..Len(c.adds[g]) :
        c.adds[g][j].k = "a" /\ c.adds[g][j].w2 \in SeqToSet(c.pre_worlds)
  THEN "WitnessWorldFreshInStep" ELSE ""

Failures(c) ==
  IF c.rec = "step"
  THEN (IF StepFail(c) = "" THEN <<>>
        ELSE <<[id |-> c.id, kind |-> "violation", clause |-> StepFail(c), event |-> 0,
                op |-> [op |-> c.rule, b |-> 0, k |-> 0], obs |-> <<>>]>>)
  ELSE IF c.rec = "history" THEN Walk(c, <<Empty>>, <<Empty>>, 1)
  ELSE LET wf == WitnessFail(c) IN
       IF wf = "" THEN <<>> ELSE <<[id |-> c.id, kind |-> "violation", clause |-> wf, event |-> 0,
                                    op |-> [op |-> c.kind, b |-> 0, k |-> 0], obs |-> <<>>]>>

VARIABLES i, bad
B == INSTANCE Batch
Spec == B!BSpec
Publish == B!BPublish
Post == B!BPost
GenSpec == i = 0 /\ bad = <<>> /\ [][FALSE]_<<i, bad>>
=============================================================================
