----------------------------- MODULE C01_Sound -----------------------------
(***************************************************************************)
(* C01: a 'valid' verdict is sound.                                        *)
(* For every proof the real prover completed with every branch closed,     *)
(* search the spec's own semantics for a counter-model over the bounds     *)
(* the harness chose under its model budget (worlds 0..nw-1, the named     *)
(* constants plus `extra` unnamed ones).  A hit is a concrete structure    *)
(* of the logic's frame class that designates every premise and not the    *)
(* conclusion -- an alarm can never be spurious, a miss is possible.       *)
(***************************************************************************)
EXTENDS Models, Json, IOUtils

Cases == ndJsonDeserialize(IOEnv.CASES)

ExtraC(k) == <<"c", 90 + k, 0>>

Failures(c) ==
  LET L == Logic(c.logic)
      v == Vocab(L, c.arg)
      W == 0..(c.nw - 1)
      C == v.consts \cup {ExtraC(k) : k \in 1..c.extra}
      cm == CounterModel(L, c.arg, W, C)
  IN IF v.bad THEN <<>>
     ELSE IF cm = <<>> THEN <<>>
     ELSE <<[id |-> c.id, logic |-> c.logic, argstr |-> c.argstr, clause |-> "ValidHasNoCountermodel",
             rules |-> c.rules, witness |-> c.witness, model |-> cm[1]]>>

VARIABLES i, bad
B == INSTANCE Batch
Spec == B!BSpec
Publish == B!BPublish
Post == B!BPost
=============================================================================
