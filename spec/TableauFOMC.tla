---------------------------- MODULE TableauFOMC ----------------------------
(***************************************************************************)
(* All schedules of the FIRST-ORDER (non-modal) tableau calculus of one    *)
(* logic: operator rules, quantifier rules with fresh witnesses, universal *)
(* instantiation over the constants of the branch, the constant limit.     *)
(*                                                                         *)
(* As in TableauMC / TableauModalMC the RULE TABLE is not written here: it *)
(* is what the real rule objects produced (C04 driver).  Operator shapes   *)
(* are node templates over the atoms A, B.  Quantifier shapes are the      *)
(* recorded expansion of  Q x F(x)  (plain / negated, each designation) on *)
(* a branch that already holds ONE constant a:                             *)
(*   - a rule that TICKED its node is witness/translation type: its groups *)
(*     are instantiated once, with F(b) (b = the constant the real rule    *)
(*     made up) standing for the body at a FRESH constant and F(x) under a *)
(*     quantifier standing for the body itself;                            *)
(*   - a rule that did not tick is universal type: one instance per        *)
(*     constant on the branch (F(a) = the body at that constant), a first  *)
(*     constant when the branch has none, never ticked.                    *)
(* Closure conditions are the ones C05 validates.  A witness step on a     *)
(* branch that already holds more constants than the limit projected from  *)
(* the trunk (MaxConsts: max(1, constants) * max(1, quantifiers) + 1) puts *)
(* a quit flag on the branch, as does a universal instantiation there.     *)
(*                                                                         *)
(* Checked in every reachable state of every schedule:                     *)
(*   Saturated             a terminal open unflagged branch lacks no       *)
(*                         universal instance (C02 "completed = saturated")*)
(*   ModelSatisfiesBranch  the structure read off such a branch (domain =  *)
(*                         its constants, literal values as C05 validates) *)
(*                         satisfies EVERY node under the spec evaluator,  *)
(*                         quantifiers ranging over the domain (C02)       *)
(*   VerdictAsRecorded     a terminal state is all-closed iff the real     *)
(*                         prover reported the argument valid (the verdict *)
(*                         recorded by the harness): one verdict in all    *)
(*                         schedules, and it is the code's (C09, C01)      *)
(*   SoundWhenClosed       a terminal state with every branch closed (the  *)
(*                         schedule says "valid") has NO counter-model     *)
(*                         among the structures of the logic over the      *)
(*                         argument's vocabulary with one and with two     *)
(*                         domain elements beyond the trunk's constants    *)
(*                         (Models!CounterModel, the oracle of C01): no    *)
(*                         schedule of the extracted rules proves what the *)
(*                         semantics refutes at that scope (C01)           *)
(*   Termination           <>Terminal                                      *)
(***************************************************************************)
EXTENDS Logics, SequencesExt, FiniteSetsExt, Json, IOUtils

Table == ndJsonDeserialize(IOEnv.RULES)
Par == JsonDeserialize(IOEnv.PAR)                 \* [logic, args (each with field expect: "valid" | "invalid" | "limit")]
LName == Par.logic
L == Logic(LName)
Args == Par.args
Style == L.style
Base == L.base

Node(s, d) == [s |-> s, d |-> d]
TrunkSet(arg) ==
  IF Style = "plain"
  THEN {Node(arg.prems[j], "") : j \in 1..Len(arg.prems)} \cup {Node(NegS(arg.conc), "")}
  ELSE {Node(arg.prems[j], "+") : j \in 1..Len(arg.prems)} \cup {Node(arg.conc, "-")}

(* ---- shapes and the rule table ---- *)
IsNegS(s) == s[1] = "O" /\ s[2] = "Negation"
OpShape(s) == IF s[1] # "O" THEN <<>>
              ELSE IF ~IsNegS(s) THEN <<s[2], 0>>
              ELSE IF s[3][1][1] = "O" THEN <<s[3][1][2], 1>> ELSE <<>>
QShape(s) == IF s[1] = "Q" THEN <<s[2], 0>>
             ELSE IF IsNegS(s) /\ s[3][1][1] = "Q" THEN <<s[3][1][2], 1>> ELSE <<>>
QSent(s) == IF s[1] = "Q" THEN s ELSE s[3][1]          \* the quantified sentence of a quantifier-shaped node
Operands(s) == IF IsNegS(s) THEN s[3][1][3] ELSE s[3]
Lookup1(kind, sh, d, k) ==
  LET I == {j \in 1..Len(Table) : Table[j].logic = LName /\ Table[j].kind = kind /\ Table[j].sym = sh[1]
                                   /\ Table[j].neg = sh[2] /\ Table[j].d = d /\ Table[j].k = k}
  IN IF I = {} THEN <<>> ELSE <<Table[CHOOSE j \in I : TRUE]>>
OpRule(n) == IF OpShape(n.s) = <<>> THEN <<>> ELSE Lookup1("op", OpShape(n.s), n.d, 0)
QRule(n) == IF QShape(n.s) = <<>> THEN <<>> ELSE Lookup1("quant", QShape(n.s), n.d, 1)

RECURSIVE SubstAtoms(_, _)
SubstAtoms(t, ops) == IF t[1] = "A" THEN ops[t[2] + 1]
                      ELSE <<"O", t[2], [j \in 1..Len(t[3]) |-> SubstAtoms(t[3][j], ops)]>>
OpInstances(n) ==
  LET r == OpRule(n)[1]  ops == Operands(n.s)
  IN [g \in 1..Len(r.exts) |-> {Node(SubstAtoms(r.exts[g][j].s, ops), r.exts[g][j].d) : j \in 1..Len(r.exts[g])}]

\* template constants of the recorded quantifier expansions: a = the constant that was on the branch,
\* b = the constant the rule made up, x = the template's bound variable, F = the template's body predicate
tA == <<"c", 0, 0>>
tB == <<"c", 1, 0>>
tX == <<"v", 0, 0>>
tF == <<0, 0, 1>>
RECURSIVE TSub(_, _, _, _, _)
\* instantiate template sentence t for a node  Q v body : F(x) -> body, F(a) -> body[ca/v], F(b) -> body[cb/v]
TSub(t, body, v, ca, cb) ==
  CASE t[1] = "P" -> IF t[2] # tF THEN t
                     ELSE IF t[3][1] = tX THEN body
                     ELSE IF t[3][1] = tA THEN Sub(body, ca, v)
                     ELSE Sub(body, cb, v)
    [] t[1] = "Q" -> <<"Q", t[2], v, TSub(t[4], body, v, ca, cb)>>
    [] t[1] = "A" -> t
    [] OTHER -> <<"O", t[2], [j \in 1..Len(t[3]) |-> TSub(t[3][j], body, v, ca, cb)]>>
RECURSIVE Mentions(_, _)
Mentions(t, p) == CASE t[1] = "P" -> \E j \in 1..Len(t[3]) : t[3][j] = p
                    [] t[1] = "Q" -> Mentions(t[4], p)
                    [] t[1] = "A" -> FALSE
                    [] OTHER -> \E j \in 1..Len(t[3]) : Mentions(t[3][j], p)
Ticks(r) == r.ticked = 1
MakesConstant(r) == \E g \in 1..Len(r.exts) : \E j \in 1..Len(r.exts[g]) : Mentions(r.exts[g][j].s, tB)
QInstances(n, ca, cb) ==
  LET r == QRule(n)[1]  q == QSent(n.s)
  IN [g \in 1..Len(r.exts) |-> {Node(TSub(r.exts[g][j].s, q[4], q[3], ca, cb), r.exts[g][j].d) : j \in 1..Len(r.exts[g])}]

(* ---- constants of a branch ---- *)
RECURSIVE ConstsIn(_)
ConstsIn(s) == CASE s[1] = "A" -> {}
                 [] s[1] = "P" -> {s[3][j] : j \in {j \in 1..Len(s[3]) : s[3][j][1] = "c"}}
                 [] s[1] = "Q" -> ConstsIn(s[4])
                 [] OTHER -> UNION {ConstsIn(s[3][j]) : j \in 1..Len(s[3])}
ConstsOf(nodes) == UNION {ConstsIn(n.s) : n \in nodes}
Fresh(nodes) == IF ConstsOf(nodes) = {} THEN <<"c", 0, 0>> ELSE <<"c", Max({c[2] : c \in ConstsOf(nodes)}) + 1, 0>>
\* universal instantiation ranges over the constants of the branch, or one first constant when there is none
Targets(nodes) == IF ConstsOf(nodes) = {} THEN {<<"c", 0, 0>>} ELSE ConstsOf(nodes)

\* the limit MaxConsts projects from the trunk
RECURSIVE QCount(_)
QCount(s) == CASE s[1] \in {"A", "P"} -> 0
               [] s[1] = "Q" -> 1 + QCount(s[4])
               [] OTHER -> LET RECURSIVE Sum(_)
                               Sum(j) == IF j > Len(s[3]) THEN 0 ELSE QCount(s[3][j]) + Sum(j + 1)
                           IN Sum(1)
RECURSIVE SumQ(_)
SumQ(S) == IF S = {} THEN 0 ELSE LET n == CHOOSE n \in S : TRUE IN QCount(n.s) + SumQ(S \ {n})
Max2(x, y) == IF x > y THEN x ELSE y
MaxC(a) == Max2(1, Cardinality(ConstsOf(TrunkSet(a)))) * Max2(1, SumQ(TrunkSet(a))) + 1

(* ---- closure (C05-validated conditions) ---- *)
Gluts == "B" \in ValsOf(Base)
Gaps == "N" \in ValsOf(Base)
Closable(nodes) ==
  \E n \in nodes :
     IF Style = "plain" THEN Node(NegS(n.s), "") \in nodes
     ELSE \/ (n.d = "+" /\ Node(n.s, "-") \in nodes)
          \/ (~Gluts /\ n.d = "+" /\ Node(NegS(n.s), "+") \in nodes)
          \/ (~Gaps /\ n.d = "-" /\ Node(NegS(n.s), "-") \in nodes)

(* ---- the transition system ---- *)
VARIABLES arg, br
vars == <<arg, br>>
Init == /\ arg \in {Args[j] : j \in 1..Len(Args)}
        /\ br = {[nodes |-> TrunkSet(arg), ticked |-> {}, closed |-> FALSE, quit |-> FALSE]}

Live(b) == ~b.closed /\ ~b.quit
Exceeded(b) == Cardinality(ConstsOf(b.nodes)) > MaxC(arg)
OpMoves(b) == {<<"op", n>> : n \in {n \in b.nodes \ b.ticked : OpRule(n) # <<>>}}
UsesPresent(r) == \E g \in 1..Len(r.exts) : \E j \in 1..Len(r.exts[g]) : Mentions(r.exts[g][j].s, tA)
\* a ticking rule whose recorded expansion mentions the constant that was already on the branch instantiates with a
\* PRESENT constant (any of them: all choices are explored); the rules of the pinned tree never do
WitMoves(b) == UNION {{<<"wit", n, ca>> : ca \in (IF UsesPresent(QRule(n)[1]) THEN Targets(b.nodes) ELSE {Fresh(b.nodes)})}
                      : n \in {n \in b.nodes \ b.ticked : QRule(n) # <<>> /\ Ticks(QRule(n)[1])}}
UniNeed(b) == {x \in {n \in b.nodes : QRule(n) # <<>> /\ ~Ticks(QRule(n)[1])} \X Targets(b.nodes) :
                 ~(QInstances(x[1], x[2], x[2])[1] \subseteq b.nodes)}
UniMoves(b) == {<<"uni", x[1], x[2]>> : x \in UniNeed(b)}
Moves(b) == OpMoves(b) \cup WitMoves(b) \cup UniMoves(b)

Apply(b, mv) ==
  CASE mv[1] = "op" ->
         LET inst == OpInstances(mv[2]) IN
         {[b EXCEPT !.nodes = b.nodes \cup inst[g], !.ticked = b.ticked \cup {mv[2]}] : g \in 1..Len(inst)}
    [] mv[1] = "wit" ->
         IF MakesConstant(QRule(mv[2])[1]) /\ Exceeded(b)
         THEN {[b EXCEPT !.quit = TRUE]}
         ELSE LET inst == QInstances(mv[2], mv[3], Fresh(b.nodes)) IN
              {[b EXCEPT !.nodes = b.nodes \cup inst[g], !.ticked = b.ticked \cup {mv[2]}] : g \in 1..Len(inst)}
    [] mv[1] = "uni" ->
         IF Exceeded(b) THEN {[b EXCEPT !.quit = TRUE]} ELSE
         {[b EXCEPT !.nodes = b.nodes \cup QInstances(mv[2], mv[3], mv[3])[1]]}

\* Reduction as in TableauMC: one canonical active branch at a time, closure first; WITHIN the branch every
\* order of rule applications is explored.
Active == {b \in br : Live(b) /\ (Closable(b.nodes) \/ Moves(b) # {})}
Next == /\ Active # {}
        /\ LET b == CHOOSE b \in Active : TRUE IN
           IF Closable(b.nodes) THEN br' = (br \ {b}) \cup {[b EXCEPT !.closed = TRUE]}
           ELSE \E mv \in Moves(b) : br' = (br \ {b}) \cup Apply(b, mv)
        /\ UNCHANGED arg
Spec == Init /\ [][Next]_vars /\ WF_vars(Next)

Terminal == Active = {}
Done == {b \in br : Live(b)}                      \* open, unflagged
Flagged == {b \in br : b.quit}

Saturated == Terminal => \A b \in Done : UniNeed(b) = {}

(* ---- the structure read off an open branch ---- *)
RECURSIVE LitsIn(_)
\* atoms and constant-only predications occurring anywhere in a sentence
LitsIn(s) == CASE s[1] = "A" -> {s}
               [] s[1] = "P" -> IF \A j \in 1..Len(s[3]) : s[3][j][1] = "c" THEN {s} ELSE {}
               [] s[1] = "Q" -> LitsIn(s[4])
               [] OTHER -> UNION {LitsIn(s[3][j]) : j \in 1..Len(s[3])}
LitOK(v, d) == IF d = "" THEN v = "T" ELSE IF d = "+" THEN v \in DesOf(Base) ELSE v \notin DesOf(Base)
ValueOf(nodes, a) ==
  LET ok(v) == /\ \A d \in {"", "+", "-"} : Node(a, d) \in nodes => LitOK(v, d)
               /\ \A d \in {"", "+", "-"} : Node(NegS(a), d) \in nodes => LitOK(Neg(Base, v), d)
      cands == {v \in ValsOf(Base) : ok(v)}
  IN IF cands = {} THEN "?" ELSE IF UnassOf(Base) \in cands THEN UnassOf(Base) ELSE CHOOSE v \in cands : TRUE
ModelOf(nodes) ==
  LET lits == SetToSeq(UNION {LitsIn(n.s) : n \in nodes})
  IN [C |-> SetToSeq(Targets(nodes)), R |-> <<>>,
      val |-> [j \in 1..Len(lits) |-> <<0, lits[j], ValueOf(nodes, lits[j])>>]]
ModelSatisfiesBranch ==
  Terminal => \A b \in Done : LET M == ModelOf(b.nodes) IN \A n \in b.nodes : SatN(L, M, [s |-> n.s, d |-> n.d, w |-> 0])

(* ---- soundness of an all-closed terminal state at small scope ---- *)
MD == INSTANCE Models
Dom(k) == ConstsOf(TrunkSet(arg)) \cup {<<"c", j, 0>> : j \in 0..(k - 1)}
SoundWhenClosed ==
  (Terminal /\ \A b \in br : b.closed) => \A k \in 1..2 : MD!CounterModel(L, arg, {0}, Dom(k)) = <<>>

(* ---- the verdict ---- *)
VerdictAsRecorded ==
  Terminal => CASE arg.expect = "valid"   -> \A b \in br : b.closed
                [] arg.expect = "invalid" -> Done # {}
                [] OTHER -> TRUE
Termination == <>Terminal
=============================================================================
