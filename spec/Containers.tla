----------------------------- MODULE Containers -----------------------------
(***************************************************************************)
(* C18: ordered-set containers stay a set and a sequence at once.          *)
(*                                                                         *)
(* The model is a plain list without duplicates (a TLA+ sequence) over a   *)
(* small value universe 1..NV.  Apply(s, e) gives, for every operation     *)
(* instance e, whether it raises and the set of admissible post-states     *)
(* (one state, except for bulk operations that raise, which may have       *)
(* applied a prefix).  `Conflict` is the arity-conflict relation of the    *)
(* predicate store (empty for the plain containers).                       *)
(*                                                                         *)
(* e = [op, v, w, i, sl]   (unused fields are 0 / "")                      *)
(***************************************************************************)
EXTENDS Naturals, Integers, Sequences, FiniteSets, SequencesExt, TLC

Has(s, v) == \E k \in 1..Len(s) : s[k] = v
Pos(s, v) == CHOOSE k \in 1..Len(s) : s[k] = v
NoDup(s) == \A j, k \in 1..Len(s) : s[j] = s[k] => j = k
Del(s, k) == SubSeq(s, 1, k - 1) \o SubSeq(s, k + 1, Len(s))
Ins(s, k, v) == SubSeq(s, 1, k) \o <<v>> \o SubSeq(s, k + 1, Len(s))     \* v becomes element k+1
Rev(s) == [k \in 1..Len(s) |-> s[Len(s) + 1 - k]]
Norm(n, i) == IF i < 0 THEN n + i ELSE i
Clamp(n, i) == IF Norm(n, i) < 0 THEN 0 ELSE IF Norm(n, i) > n THEN n ELSE Norm(n, i)
InRange(n, i) == Norm(n, i) \in 0..(n - 1)

RECURSIVE SortAsc(_)
SortAsc(s) == IF s = <<>> THEN <<>>
              ELSE LET m == CHOOSE k \in 1..Len(s) : \A j \in 1..Len(s) : s[k] <= s[j]
                   IN <<s[m]>> \o SortAsc(Del(s, m))

\* the key of universe value v for keyed sorts (for the predicate store: the arity of F/1, F/2, G/1, H/2, G/2)
SortKey == <<1, 2, 1, 2, 2>>
\* 1-based positions selected by the named slices (python semantics)
Min2(a, b) == IF a < b THEN a ELSE b
SliceIdx(n, sl) ==
  CASE sl = "0:1" -> IF n >= 1 THEN <<1>> ELSE <<>>
    [] sl = "1:"  -> [k \in 1..(IF n >= 1 THEN n - 1 ELSE 0) |-> k + 1]
    [] sl = ":2"  -> [k \in 1..Min2(2, n) |-> k]
    [] sl = "1:3" -> [k \in 1..(IF n >= 1 THEN Min2(2, n - 1) ELSE 0) |-> k + 1]
    [] sl = "::2" -> [k \in 1..((n + 1) \div 2) |-> 2 * k - 1]
    \* negative steps (python: c[::-1], c[::-2], c[3:0:-2])
    [] sl = "::-1" -> [k \in 1..n |-> n + 1 - k]
    [] sl = "::-2" -> [k \in 1..((n + 1) \div 2) |-> n - 2 * (k - 1)]
    [] sl = "3:0:-2" -> LET st == Min2(3, n - 1) IN        \* 0-based start, stop 0 exclusive
                        [k \in 1..(IF st <= 0 THEN 0 ELSE (st + 1) \div 2) |-> st - 2 * (k - 1) + 1]
SeqSet(q) == {q[k] : k \in 1..Len(q)}

RECURSIVE DelAll(_, _)
DelAll(s, P) == IF s = <<>> THEN <<>>
                ELSE (IF Head(s) \in P THEN <<>> ELSE <<Head(s)>>) \o DelAll(Tail(s), P)
DelPositions(s, idx) == LET P == SeqSet(idx) IN
  LET RECURSIVE go(_)
      go(k) == IF k > Len(s) THEN <<>> ELSE (IF k \in P THEN <<>> ELSE <<s[k]>>) \o go(k + 1)
  IN go(1)

\* arity conflicts (predicate store): value a may not join a set containing b
ConflictsWith(Conflict, s, v, leaving) == \E k \in 1..Len(s) : <<s[k], v>> \in Conflict /\ s[k] \notin leaving

Ok(s) == [raises |-> FALSE, posts |-> {s}]
Raise(S) == [raises |-> TRUE, posts |-> S]

\* element-wise folds for the bulk operations: [states |-> the state before each element and
\* the final one, stopped |-> TRUE iff an element raised (the fold stops there)]
Tr(states, stopped) == [states |-> states, stopped |-> stopped]
ConsT(st, tr) == [states |-> <<st>> \o tr.states, stopped |-> tr.stopped]

RECURSIVE FoldAdd(_, _, _)
FoldAdd(Conflict, s, vals) ==
  IF vals = <<>> THEN Tr(<<s>>, FALSE)
  ELSE LET v == Head(vals) IN
       IF Has(s, v) THEN FoldAdd(Conflict, s, Tail(vals))
       ELSE IF ConflictsWith(Conflict, s, v, {}) THEN Tr(<<s>>, TRUE)
       ELSE ConsT(s, FoldAdd(Conflict, Append(s, v), Tail(vals)))

Stopped(tr) == tr.stopped
States(tr) == SeqSet(tr.states)
Final(tr) == tr.states[Len(tr.states)]

RECURSIVE FoldXor(_, _, _)
FoldXor(Conflict, s, vals) ==
  IF vals = <<>> THEN Tr(<<s>>, FALSE)
  ELSE LET v == Head(vals) IN
       IF Has(s, v) THEN ConsT(s, FoldXor(Conflict, Del(s, Pos(s, v)), Tail(vals)))
       ELSE IF ConflictsWith(Conflict, s, v, {}) THEN Tr(<<s>>, TRUE)
       ELSE ConsT(s, FoldXor(Conflict, Append(s, v), Tail(vals)))

RECURSIVE FoldExtend(_, _, _)
FoldExtend(Conflict, s, vals) ==
  IF vals = <<>> THEN Tr(<<s>>, FALSE)
  ELSE LET v == Head(vals) IN
       IF Has(s, v) \/ ConflictsWith(Conflict, s, v, {}) THEN Tr(<<s>>, TRUE)
       ELSE ConsT(s, FoldExtend(Conflict, Append(s, v), Tail(vals)))

Apply(Conflict, s, e) ==
  LET n == Len(s) IN
  CASE e.op = "append"  -> IF Has(s, e.v) \/ ConflictsWith(Conflict, s, e.v, {}) THEN Raise({s}) ELSE Ok(Append(s, e.v))
    [] e.op = "add"     -> IF Has(s, e.v) THEN Ok(s)
                           ELSE IF ConflictsWith(Conflict, s, e.v, {}) THEN Raise({s}) ELSE Ok(Append(s, e.v))
    [] e.op = "insert"  -> IF Has(s, e.v) \/ ConflictsWith(Conflict, s, e.v, {}) THEN Raise({s}) ELSE Ok(Ins(s, Clamp(n, e.i), e.v))
    [] e.op = "remove"  -> IF Has(s, e.v) THEN Ok(Del(s, Pos(s, e.v))) ELSE Raise({s})
    [] e.op = "discard" -> IF Has(s, e.v) THEN Ok(Del(s, Pos(s, e.v))) ELSE Ok(s)
    [] e.op = "delitem" -> IF InRange(n, e.i) THEN Ok(Del(s, Norm(n, e.i) + 1)) ELSE Raise({s})
    [] e.op = "delslice" -> Ok(DelPositions(s, SliceIdx(n, e.sl)))
    [] e.op = "setitem" ->
         IF ~InRange(n, e.i) THEN Raise({s})
         ELSE LET k == Norm(n, e.i) + 1 IN
              IF Has(s, e.v) /\ s[k] # e.v THEN Raise({s})
              ELSE IF ConflictsWith(Conflict, s, e.v, {s[k]}) THEN Raise({s})
              ELSE Ok([s EXCEPT ![k] = e.v])
    [] e.op = "setslice" ->
         LET idx == SliceIdx(n, e.sl)
             vals == e.vals
         IN IF Len(idx) # Len(vals) THEN Raise({s})
            ELSE LET r == [k \in 1..n |-> IF \E j \in 1..Len(idx) : idx[j] = k
                                          THEN vals[CHOOSE j \in 1..Len(idx) : idx[j] = k] ELSE s[k]]
                     leaving == {s[idx[j]] : j \in 1..Len(idx)}
                 IN IF NoDup(r) /\ ~\E j \in 1..Len(vals) : ConflictsWith(Conflict, r, vals[j], {})
                    THEN Ok(r)
                    ELSE Raise({s})
    [] e.op = "sort"    -> Ok(SortAsc(s))
    \* sort(key = SortKey, reverse = True): descending by key, STABLE (equal keys keep their order, as list.sort does)
    [] e.op = "sortkr"  -> Ok(SelectSeq(s, LAMBDA v : SortKey[v] = 2) \o SelectSeq(s, LAMBDA v : SortKey[v] = 1))
    [] e.op = "reverse" -> Ok(Rev(s))
    [] e.op = "clear"   -> Ok(<<>>)
    [] e.op = "copy"    -> Ok(s)
    [] e.op = "ior"     -> LET tr == FoldAdd(Conflict, s, e.vals) IN IF Stopped(tr) THEN Raise(States(tr)) ELSE Ok(Final(tr))
    [] e.op = "update"  -> LET tr == FoldAdd(Conflict, s, e.vals) IN IF Stopped(tr) THEN Raise(States(tr)) ELSE Ok(Final(tr))
    [] e.op = "extend"  -> LET tr == FoldExtend(Conflict, s, e.vals) IN IF Stopped(tr) THEN Raise(States(tr)) ELSE Ok(Final(tr))
    [] e.op = "iand"    -> Ok(DelAll(s, SeqSet(s) \ SeqSet(e.vals)))
    [] e.op = "isub"    -> Ok(DelAll(s, SeqSet(e.vals)))
    [] e.op = "ixor"    -> LET tr == FoldXor(Conflict, s, e.vals) IN IF Stopped(tr) THEN Raise(States(tr)) ELSE Ok(Final(tr))
    [] e.op = "wedge"   -> IF ~Has(s, e.w) \/ Has(s, e.v) THEN Raise({s})
                           ELSE Ok(Ins(s, IF e.i = 1 THEN Pos(s, e.w) ELSE Pos(s, e.w) - 1, e.v))

(* ---- contract on an observation o of the real container ---- *)
\* o = [list, len, member (per universe value), index (per universe value, -1 = absent), getitem, rev]
ObsFail(NV, o) ==
  IF ~NoDup(o.list) THEN "ListIsSet"
  ELSE IF o.len # Len(o.list) THEN "LenAgrees"
  ELSE IF \E v \in 1..NV : (o.member[v] = 1) # Has(o.list, v) THEN "MembershipAgreesWithSequence"
  ELSE IF \E v \in 1..NV : o.index[v] # (IF Has(o.list, v) THEN Pos(o.list, v) - 1 ELSE -1) THEN "IndexAgrees"
  ELSE IF o.getitem # o.list THEN "GetitemAgrees"
  ELSE IF o.rev # Rev(o.list) THEN "ReverseAgrees"
  ELSE IF \E j \in 1..Len(o.slices) : o.slices[j].got # [k \in 1..Len(SliceIdx(Len(o.list), o.slices[j].sl)) |-> o.list[SliceIdx(Len(o.list), o.slices[j].sl)[k]]]
       THEN "SliceReadAgrees"
  ELSE ""
=============================================================================
