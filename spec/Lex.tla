--------------------------------- MODULE Lex ---------------------------------
(***************************************************************************)
(* Abstract syntax: reference definitions of substitution and of the       *)
(* derived attributes of sentences, well-formedness of parser output, and  *)
(* the bounded first-order grammar used by C12-C15.                        *)
(* Sentence encoding: DESIGN.md 2.2.                                       *)
(***************************************************************************)
EXTENDS Naturals, Integers, Sequences, FiniteSets, SequencesExt

SeqToSet(q) == {q[j] : j \in 1..Len(q)}

(* ---- substitution ---- *)
RECURSIVE Subst(_, _, _)
Subst(s, new, old) ==
  CASE s[1] = "A" -> s
    [] s[1] = "P" -> <<"P", s[2], [i \in 1..Len(s[3]) |-> IF s[3][i] = old THEN new ELSE s[3][i]]>>
    [] s[1] = "Q" -> <<"Q", s[2], s[3], Subst(s[4], new, old)>>
    [] OTHER      -> <<"O", s[2], [i \in 1..Len(s[3]) |-> Subst(s[3][i], new, old)]>>
Unquantify(q, c) == Subst(q[4], c, q[3])
Negative(s) == IF s[1] = "O" /\ s[2] = "Negation" THEN s[3][1] ELSE <<"O", "Negation", <<s>>>>

(* ---- derived attributes, by walking the structure ---- *)
RECURSIVE ParamsOf(_), PredicatesOf(_), AtomicsOf(_), OperatorsOf(_), QuantifiersOf(_)
ParamsOf(s) ==
  CASE s[1] = "A" -> {}
    [] s[1] = "P" -> SeqToSet(s[3])
    [] s[1] = "Q" -> ParamsOf(s[4])
    [] OTHER -> UNION {ParamsOf(s[3][i]) : i \in 1..Len(s[3])}
ConstantsOf(s) == {p \in ParamsOf(s) : p[1] = "c"}
VariablesOf(s) == {p \in ParamsOf(s) : p[1] = "v"}
PredicatesOf(s) ==
  CASE s[1] = "A" -> {}
    [] s[1] = "P" -> {s[2]}
    [] s[1] = "Q" -> PredicatesOf(s[4])
    [] OTHER -> UNION {PredicatesOf(s[3][i]) : i \in 1..Len(s[3])}
AtomicsOf(s) ==
  CASE s[1] = "A" -> {s}
    [] s[1] = "P" -> {}
    [] s[1] = "Q" -> AtomicsOf(s[4])
    [] OTHER -> UNION {AtomicsOf(s[3][i]) : i \in 1..Len(s[3])}
\* prefix order
OperatorsOf(s) ==
  CASE s[1] \in {"A", "P"} -> <<>>
    [] s[1] = "Q" -> OperatorsOf(s[4])
    [] OTHER -> <<s[2]>> \o FlattenSeq([i \in 1..Len(s[3]) |-> OperatorsOf(s[3][i])])
QuantifiersOf(s) ==
  CASE s[1] \in {"A", "P"} -> <<>>
    [] s[1] = "Q" -> <<s[2]>> \o QuantifiersOf(s[4])
    [] OTHER -> FlattenSeq([i \in 1..Len(s[3]) |-> QuantifiersOf(s[3][i])])

(* ---- well-formedness of what a parser may return (C13) ---- *)
RECURSIVE FreeVars(_), BindersOK(_, _), ArityOKS(_)
FreeVars(s) ==
  CASE s[1] = "A" -> {}
    [] s[1] = "P" -> {p \in SeqToSet(s[3]) : p[1] = "v"}
    [] s[1] = "Q" -> FreeVars(s[4]) \ {s[3]}
    [] OTHER -> UNION {FreeVars(s[3][i]) : i \in 1..Len(s[3])}
\* no vacuous quantifier, no re-binding of a variable already bound
BindersOK(s, bound) ==
  CASE s[1] \in {"A", "P"} -> TRUE
    [] s[1] = "Q" -> s[3] \notin bound /\ s[3] \in FreeVars(s[4]) /\ BindersOK(s[4], bound \cup {s[3]})
    [] OTHER -> \A i \in 1..Len(s[3]) : BindersOK(s[3][i], bound)
ArityOKS(s) ==
  CASE s[1] = "A" -> TRUE
    [] s[1] = "P" -> Len(s[3]) = s[2][3] /\ s[2][3] >= 1
    [] s[1] = "Q" -> ArityOKS(s[4])
    [] OTHER -> \A i \in 1..Len(s[3]) : ArityOKS(s[3][i])
IsClosedWF(s) == FreeVars(s) = {} /\ BindersOK(s, {}) /\ ArityOKS(s)
\* no two predicates sharing a symbol with different arities
SymbolsConsistent(S) == \A p, q \in UNION {PredicatesOf(s) : s \in S} : (p[1] = q[1] /\ p[2] = q[2]) => p[3] = q[3]

(* ---- bounded first-order grammar: FON(n, bound) = formulas with exactly n connectives/quantifiers
        whose free variables are among `bound` ---- *)
GConsts == {<<"c", 0, 0>>, <<"c", 1, 0>>}
GVars == <<<<"v", 0, 0>>, <<"v", 1, 0>>>>
GPredF == <<0, 0, 1>>
GPredH == <<1, 0, 2>>
GIdent == <<-1, 0, 2>>
GUn == {"Negation", "Possibility"}
GBin == {"Conjunction", "Conditional"}
GQ == {"Existential", "Universal"}

GAtoms(bound) ==
  LET T == GConsts \cup bound IN
  {<<"A", 0, 0>>} \cup {<<"P", GPredF, <<t>>>> : t \in T}
  \cup {<<"P", GPredH, <<t, u>>>> : t \in T, u \in T} \cup {<<"P", GIdent, <<t, u>>>> : t \in T, u \in T}

RECURSIVE FON(_, _)
FON(n, bound) ==
  IF n = 0 THEN GAtoms(bound)
  ELSE {<<"O", op, <<x>>>> : op \in GUn, x \in FON(n - 1, bound)}
       \cup UNION {{<<"O", op, <<x, y>>>> : op \in GBin, x \in FON(k, bound), y \in FON(n - 1 - k, bound)} : k \in 0..(n - 1)}
       \cup (IF Cardinality(bound) >= Len(GVars) THEN {}
             ELSE LET v == GVars[Cardinality(bound) + 1] IN
                  {<<"Q", q, v, b>> : q \in GQ, b \in {b \in FON(n - 1, bound \cup {v}) : v \in FreeVars(b)}})
FOSentUpTo(n) == UNION {FON(k, {}) : k \in 0..n}
=============================================================================
