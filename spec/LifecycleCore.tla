----------------------------- MODULE LifecycleCore --------------------------
(***************************************************************************)
(* C17: limits and lifecycle -- the flag machine of a tableau, with the    *)
(* proof content abstracted to (n, k) = natural length, steps taken.       *)
(*                                                                         *)
(* Model layer: Do(cfg, st, call) is what each public call does (one       *)
(* action per call = linearisation point is the call's return).            *)
(* Contract layer: the named clauses at the bottom are the conjuncts of    *)
(* property C17; TLC checks that the model satisfies them in all           *)
(* interleavings (Spec / invariants / action property), and every          *)
(* recorded call of the real Tableau is validated against both.            *)
(*                                                                         *)
(* cfg = [mode  : "auto" (logic+argument given, trunk built at             *)
(*                construction) | "manual" (auto_build_trunk=False)        *)
(*                | "noarg" (logic only)                                   *)
(*                | "hand" (logic only, auto_build_trunk=False, and a      *)
(*                  branch whose nodes were put in by hand before the      *)
(*                  first call: rules apply although no trunk was ever     *)
(*                  built; only step / finish / build are driven),         *)
(*        n     : natural length of the unlimited proof,                   *)
(*        valid : 1/0 verdict of the unlimited proof,                      *)
(*        limit : max_steps option (-1 = None; 0 and negatives unlimited), *)
(*        tmo   : 1 = a time limit so small that it has always expired     *)
(*                once the build timer has run]                            *)
(***************************************************************************)
EXTENDS Naturals, Integers, Sequences, FiniteSets, TLC

Calls == {"step", "finish", "build", "build_trunk", "set_argument", "set_logic", "add_rule"}

Init0(cfg) ==
  [hasarg |-> cfg.mode \notin {"noarg", "hand"}, trunk |-> cfg.mode = "auto", started |-> cfg.mode = "auto",
   finished |-> FALSE, pflag |-> TRUE, k |-> 0, ran |-> FALSE, timedout |-> FALSE,
   \* which argument object the tableau holds: 0 none, 1 the constructor's, j + 1 the one passed by the
   \* j-th set_argument call (nset counts those calls, capped so that the model stays finite)
   argid |-> IF cfg.mode \notin {"noarg", "hand"} THEN 1 ELSE 0, nset |-> 0]
NSetCap == 5
Bump(st) == IF st.nset < NSetCap THEN st.nset + 1 ELSE NSetCap

LimitActive(cfg) == cfg.limit > 0
Exceeded(cfg, st) == LimitActive(cfg) /\ st.k >= cfg.limit
CanApply(cfg, st) == (st.trunk \/ cfg.mode = "hand") /\ st.k < cfg.n

Ret(st, r) == [st |-> st, ret |-> r]

StepOnce(cfg, st) ==
  IF st.finished THEN Ret(st, "none")
  ELSE IF cfg.tmo = 1 /\ st.ran
       THEN Ret([st EXCEPT !.finished = TRUE, !.timedout = TRUE], "raise:ProofTimeoutError")
  ELSE IF Exceeded(cfg, st) THEN Ret([st EXCEPT !.finished = TRUE, !.ran = TRUE], "none")
  ELSE IF CanApply(cfg, st) THEN Ret([st EXCEPT !.k = st.k + 1, !.started = TRUE, !.ran = TRUE], "entry")
  ELSE Ret([st EXCEPT !.pflag = FALSE, !.finished = TRUE, !.ran = TRUE], "none")

RECURSIVE BuildLoop(_, _)
BuildLoop(cfg, st) ==
  LET r == StepOnce(cfg, st) IN
  IF r.ret = "entry" THEN BuildLoop(cfg, r.st)
  ELSE IF r.ret = "none" THEN Ret(r.st, "self") ELSE r

Do(cfg, st, call) ==
  CASE call = "step"   -> StepOnce(cfg, st)
    [] call = "finish" -> Ret([st EXCEPT !.finished = TRUE], "self")
    [] call = "build"  -> BuildLoop(cfg, st)
    [] call = "build_trunk" ->
         IF st.trunk \/ ~st.hasarg \/ st.started THEN Ret(st, "raise:IllegalStateError")
         ELSE Ret([st EXCEPT !.trunk = TRUE, !.started = TRUE], "self")
    [] call = "set_argument" ->
         IF st.started THEN Ret([st EXCEPT !.nset = Bump(st)], "raise:IllegalStateError")
         ELSE IF cfg.mode = "noarg"       \* auto_build_trunk is on: the trunk is built at once
              THEN Ret([st EXCEPT !.hasarg = TRUE, !.trunk = TRUE, !.started = TRUE, !.nset = Bump(st), !.argid = Bump(st) + 1], "ok")
              ELSE Ret([st EXCEPT !.hasarg = TRUE, !.nset = Bump(st), !.argid = Bump(st) + 1], "ok")
    [] call = "set_logic" ->
         IF st.started THEN Ret(st, "raise:IllegalStateError") ELSE Ret(st, "ok")
    [] call = "add_rule" ->
         IF st.trunk THEN Ret(st, "raise:IllegalStateError") ELSE Ret(st, "ok")

(* observable projection: what the public properties report *)
Completed(st) == st.finished /\ ~st.pflag
Premature(st) == st.finished /\ st.pflag
AllClosed(cfg, st) == IF ~st.trunk THEN TRUE ELSE IF st.k = cfg.n THEN cfg.valid = 1 ELSE FALSE
B2I(b) == IF b THEN 1 ELSE 0
Obs(cfg, st) ==
  [finished |-> B2I(st.finished), completed |-> B2I(Completed(st)), premature |-> B2I(Premature(st)),
   valid   |-> IF Completed(st) /\ st.hasarg THEN B2I(AllClosed(cfg, st)) ELSE -1,
   invalid |-> IF Completed(st) /\ st.hasarg THEN 1 - B2I(AllClosed(cfg, st)) ELSE -1,
   history_len |-> st.k, started |-> B2I(st.started), argid |-> st.argid]

(***************************************************************************)
(* Contract clauses of C17, on observations  a --call/ret--> b.            *)
(* (a, b are Obs records; they are evaluated both on the model's own       *)
(* transitions and on recorded transitions of the real Tableau.)           *)
(***************************************************************************)
PrematureHasNoVerdict(b) == (b.premature = 1 \/ b.finished = 0) => (b.valid = -1 /\ b.invalid = -1)
ThreeValued(b) == /\ b.completed = (IF b.finished = 1 /\ b.premature = 0 THEN 1 ELSE 0)
                  /\ (b.premature = 1 => b.finished = 1)
                  /\ (b.valid = 1 => b.invalid = 0) /\ (b.invalid = 1 => b.valid = 0)
                  /\ ((b.valid = -1) = (b.invalid = -1))
HistoryWithinLimit(cfg, b) == cfg.limit > 0 => b.history_len <= cfg.limit
FinishedIsFrozen(a, b, call, ret) ==
  (a.finished = 1 /\ call \in {"step", "finish", "build"}) =>
     /\ b = a
     /\ ret = (IF call = "step" THEN "none" ELSE "self")
\* `started` is the history-defined notion (the trunk has been built or a step applied: st.started of the
\* model, which is driven by the calls made), not the implementation's flag; b = a includes the argument
\* object the tableau reports (argid) -- a refused setter must not have replaced it
SettersRefusedAfterStart(started, a, b, call, ret) ==
  (started /\ call \in {"set_argument", "set_logic", "add_rule", "build_trunk"}) =>
     (ret = "raise:IllegalStateError" /\ b = a)
NoArgumentNoVerdict(hasarg, b) == ~hasarg => (b.valid = -1 /\ b.invalid = -1)
TimeoutLeavesFinished(b, ret) == ret = "raise:ProofTimeoutError" => (b.finished = 1 /\ b.premature = 1)
LimitStopsPremature(cfg, a, b, call, ret) ==
  (cfg.limit > 0 /\ a.finished = 0 /\ a.history_len >= cfg.limit /\ call \in {"step", "build"} /\ cfg.tmo = 0) =>
     (b.finished = 1 /\ b.premature = 1 /\ b.history_len = a.history_len)
\* a limit larger than the natural length (or None / 0 / negative) changes nothing:
\* building from the fresh started tableau completes with the unlimited verdict
LargeLimitChangesNothing(cfg, started, a, b, call, ret) ==
  (call = "build" /\ a.finished = 0 /\ started /\ cfg.tmo = 0 /\ (cfg.limit <= 0 \/ cfg.limit > cfg.n)) =>
     (ret = "self" /\ b.completed = 1 /\ b.history_len = cfg.n /\ b.valid = cfg.valid)
\* tmo = 2: a time limit that no single step exceeds but the whole build exceeds at least twice over
\* (measured by the harness with its virtual clock): building from the fresh started tableau must time out
CumulativeTimeoutFires(cfg, started, a, b, call, ret) ==
  (cfg.tmo = 2 /\ call = "build" /\ a.finished = 0 /\ started /\ a.history_len = 0) =>
     (ret = "raise:ProofTimeoutError" /\ b.finished = 1 /\ b.premature = 1)
\* tmo = 1: a time limit that has expired as soon as the build timer has run once (history-defined: `ran`).  Exceeding
\* the time limit RAISES, whatever other limit is configured
ExpiredTimeLimitRaises(cfg, ran, a, call, ret) ==
  (cfg.tmo = 1 /\ ran /\ a.finished = 0 /\ call \in {"step", "build"}) => ret = "raise:ProofTimeoutError"
OnlyDocumentedErrors(ret) == ret \in {"none", "entry", "self", "ok", "raise:IllegalStateError", "raise:ProofTimeoutError"}
HistoryMonotone(a, b) == b.history_len >= a.history_len /\ (a.finished = 1 => b.finished = 1)

ClauseFail(cfg, hasargAfter, startedBefore, ranBefore, a, b, call, ret) ==
  IF ~OnlyDocumentedErrors(ret) THEN "OnlyDocumentedErrors"
  ELSE IF ~ThreeValued(b) THEN "ThreeValued"
  ELSE IF ~PrematureHasNoVerdict(b) THEN "PrematureHasNoVerdict"
  ELSE IF ~HistoryWithinLimit(cfg, b) THEN "HistoryWithinLimit"
  ELSE IF ~HistoryMonotone(a, b) THEN "HistoryMonotone"
  ELSE IF ~FinishedIsFrozen(a, b, call, ret) THEN "FinishedIsFrozen"
  ELSE IF ~SettersRefusedAfterStart(startedBefore, a, b, call, ret) THEN "SettersRefusedAfterStart"
  ELSE IF ~NoArgumentNoVerdict(hasargAfter, b) THEN "NoArgumentNoVerdict"
  ELSE IF ~TimeoutLeavesFinished(b, ret) THEN "TimeoutLeavesFinished"
  ELSE IF ~ExpiredTimeLimitRaises(cfg, ranBefore, a, call, ret) THEN "ExpiredTimeLimitRaises"
  ELSE IF ~LimitStopsPremature(cfg, a, b, call, ret) THEN "LimitStopsPremature"
  ELSE IF ~LargeLimitChangesNothing(cfg, startedBefore, a, b, call, ret) THEN "LargeLimitChangesNothing"
  ELSE IF ~CumulativeTimeoutFires(cfg, startedBefore, a, b, call, ret) THEN "CumulativeTimeoutFires"
  ELSE ""

=============================================================================
