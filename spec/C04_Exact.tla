----------------------------- MODULE C04_Exact -----------------------------
(***************************************************************************)
(* C04: every single expansion step preserves satisfiability exactly.      *)
(*                                                                         *)
(* Generator: every compound node shape each logic interprets              *)
(*   (operator | quantifier | modal) x negated x designation mark          *)
(*   x number of constants / accessible worlds already on the branch.      *)
(* Validator: for the extension groups the REAL rule objects produced,     *)
(*   Sound      - every structure satisfying the branch satisfies some     *)
(*                extension (after interpreting new constants / worlds),   *)
(*   Invertible - every structure satisfying an extension (whose domain /  *)
(*                successor set is exactly what is on the branch)          *)
(*                satisfies the expanded node,                             *)
(*   StaysAtWorld, MissingRule.                                            *)
(* The case analysis is finite and complete for the value space:           *)
(* all value tuples of the operand atoms, all valuations of a monadic      *)
(* predicate over <= 3 constants, all valuations over <= 3 worlds and all  *)
(* frames of the logic's class over them.                                  *)
(***************************************************************************)
EXTENDS Logics, Frames, SequencesExt, FiniteSetsExt, Json, IOUtils

cA == <<"A", 0, 0>>
cB == <<"A", 1, 0>>
cx == <<"v", 0, 0>>
pF == <<0, 0, 1>>
pG == <<1, 0, 1>>
Kc(j) == <<"c", j, 0>>                     \* constants a, b, c, ...
Fof(p) == <<"P", pF, <<p>>>>
Gof(p) == <<"P", pG, <<p>>>>

Marks(L) == IF Logic(L).style = "plain" THEN {""} ELSE {"+", "-"}
W0(L) == IF Logic(L).modal THEN 0 ELSE -1

SNode(s, d, w) == [k |-> "s", s |-> s, d |-> d, w |-> w, w1 |-> -1, w2 |-> -1, flag |-> ""]
ANode(u, v)    == [k |-> "a", s |-> <<>>, d |-> "", w |-> -1, w1 |-> u, w2 |-> v, flag |-> ""]

ShapeSent(kind, sym, neg) ==
  LET core == CASE kind = "op"    -> IF ArityOf(sym) = 1 THEN <<"O", sym, <<cA>>>> ELSE <<"O", sym, <<cA, cB>>>>
                \* the same operator shapes over NEGATED operands: a rule must treat its operands as opaque sentences
                \* (rules that strip, merge or re-negate an operand differ exactly here)
                [] kind = "opn"   -> IF ArityOf(sym) = 1 THEN <<"O", sym, <<NegS(cA)>>>> ELSE <<"O", sym, <<NegS(cA), NegS(cB)>>>>
                \* ... and over a DOUBLY negated first operand (the second one plain): a rule that collapses, strips or
                \* re-stacks negations of an operand is exact only where negation is an involution (it is not in P3, G3, ...)
                [] kind = "opnn"  -> IF ArityOf(sym) = 1 THEN <<"O", sym, <<NegS(NegS(cA))>>>> ELSE <<"O", sym, <<NegS(NegS(cA)), cB>>>>
                [] kind = "modal" -> <<"O", sym, <<cA>>>>
                [] kind = "quant" -> <<"Q", sym, cx, Fof(cx)>>
                \* the quantified sentence itself is the only place where its constant occurs
                [] kind = "quantc" -> <<"Q", sym, cx, <<"O", "Conjunction", <<Fof(cx), Gof(Kc(2))>>>>>>
  IN IF neg = 1 THEN NegS(core) ELSE core

InertMark(L) == IF Logic(L).style = "plain" THEN "" ELSE "+"
Inert(L, kind, k) ==
  CASE kind = "modal" -> [j \in 1..k |-> ANode(0, j)]
    [] kind \in {"quant", "quantc"} -> [j \in 1..k |-> SNode(Gof(Kc(j - 1)), InertMark(L), W0(L))]
    [] OTHER -> <<>>

Shapes(L) ==
  ({<<"op", sym, neg, 0>> : sym \in TruthFunctional, neg \in {0, 1}} \ {<<"op", "Negation", 0, 0>>})
  \cup {<<"opn", sym, neg, 0>> : sym \in TruthFunctional, neg \in {0, 1}}
  \cup {<<"opnn", sym, neg, 0>> : sym \in TruthFunctional, neg \in {0, 1}}
  \cup (IF Logic(L).modal THEN {<<"modal", sym, neg, k>> : sym \in ModalOps, neg \in {0, 1}, k \in 0..2} ELSE {})
  \cup (IF Logic(L).quantified
        THEN {<<"quant", sym, neg, k>> : sym \in {"Existential", "Universal"}, neg \in {0, 1}, k \in 0..2}
             \cup {<<"quantc", sym, neg, k>> : sym \in {"Existential", "Universal"}, neg \in {0, 1}, k \in 0..1} ELSE {})

GenCases ==
  UNION {{[logic |-> L, kind |-> sh[1], sym |-> sh[2], neg |-> sh[3], d |-> d, k |-> sh[4],
           b0 |-> <<SNode(ShapeSent(sh[1], sh[2], sh[3]), d, W0(L))>> \o Inert(L, sh[1], sh[4])]
          : sh \in Shapes(L), d \in Marks(L)} : L \in LogicNames}

GenPost == LET seq == SetToSeq(GenCases)
               out == [j \in 1..Len(seq) |-> [id |-> j] @@ seq[j]]
           IN /\ TLCSet(2, 0)
              /\ PrintT(<<"GENERATED", Len(seq)>>)
              /\ ndJsonSerialize(IOEnv.OUT, out)

(***************************************************************************)
(* Syntax walkers                                                          *)
(***************************************************************************)
RECURSIVE ConstsOfS(_)
ConstsOfS(s) ==
  CASE s[1] = "A" -> {}
    [] s[1] = "P" -> {s[3][j] : j \in {j \in 1..Len(s[3]) : s[3][j][1] = "c"}}
    [] s[1] = "Q" -> ConstsOfS(s[4])
    [] OTHER      -> UNION {ConstsOfS(s[3][j]) : j \in 1..Len(s[3])}

SeqToSet(q) == {q[j] : j \in 1..Len(q)}
ConstsOfB(B) == UNION {IF B[j].k = "s" THEN ConstsOfS(B[j].s) ELSE {} : j \in 1..Len(B)}
WorldsOfB(B) == UNION {CASE B[j].k = "s" -> (IF B[j].w >= 0 THEN {B[j].w} ELSE {})
                         [] B[j].k = "a" -> {B[j].w1, B[j].w2}
                         [] OTHER -> {} : j \in 1..Len(B)}
AccessOfB(B) == {<<B[j].w1, B[j].w2>> : j \in {j \in 1..Len(B) : B[j].k = "a"}}

(***************************************************************************)
(* Frames (closures are in Frames.tla)                                     *)
(***************************************************************************)
\* frames of the class over W that contain the branch's access pairs
Rels(cls, W, Rb, wn) ==
  IF Cardinality(W) <= 3
  THEN {R \in SUBSET (W \X W) : Rb \subseteq R /\ FrameOKSet(cls, W, R)}
  ELSE {FrameClosure(cls, W, Rb \cup S) : S \in SUBSET ({wn} \X W)}

(***************************************************************************)
(* Structures                                                              *)
(***************************************************************************)
\* the cells whose values are enumerated: <<world, literal sentence>>
Cells(c, W, C) ==
  CASE c.kind \in {"op", "opn", "opnn"} -> {<<IF c.b0[1].w < 0 THEN 0 ELSE c.b0[1].w, a>> : a \in {cA, cB}}
    [] c.kind = "modal" -> {<<w, cA>> : w \in W}
    [] c.kind \in {"quant", "quantc"} -> {<<IF c.b0[1].w < 0 THEN 0 ELSE c.b0[1].w, Fof(p)>> : p \in C}

\* inert cells are fixed to T
Fixed(c, W) == SetToSeq({<<w, Gof(Kc(j)), "T">> : w \in W, j \in 0..2})

MkM(c, W, C, R, cells, f) ==
  [C |-> SetToSeq(C), R |-> SetToSeq(R), W |-> W,
   val |-> [j \in 1..Len(cells) |-> <<cells[j][1], cells[j][2], f[j]>>] \o Fixed(c, W)]

ModelsOver(c, L, W, C, Rset) ==
  LET cells == SetToSeq(Cells(c, W, C))
  IN {MkM(c, W, C, R, cells, f) : R \in Rset, f \in [1..Len(cells) -> ValsOf(L.base)]}

SatB(L, M, B) == \A j \in 1..Len(B) : SatNode(L, M, B[j])

(* ---- interpreting a new world ---- *)
DupW(M, u, n) ==
  LET R == SeqToSet(M.R)
      R2 == R \cup {<<p[1], n>> : p \in {p \in R : p[2] = u}} \cup {<<n, p[2]>> : p \in {p \in R : p[1] = u}}
              \cup (IF <<u, u>> \in R THEN {<<n, n>>} ELSE {})
      cp == SelectSeq(M.val, LAMBDA t : t[1] = u)
  IN [M EXCEPT !.R = SetToSeq(R2), !.W = M.W \cup {n},
               !.val = M.val \o [j \in 1..Len(cp) |-> <<n, cp[j][2], cp[j][3]>>]]
FreshW(L, M, src, n, v) ==
  LET W2 == M.W \cup {n}
      R2 == FrameClosure(L.frame, W2, SeqToSet(M.R) \cup {<<src, n>>})
  IN [M EXCEPT !.R = SetToSeq(R2), !.W = W2, !.val = <<<<n, cA, v>>>> \o M.val]
WorldCands(L, M, src, n) ==
  {DupW(M, u, n) : u \in M.W} \cup {FreshW(L, M, src, n, v) : v \in ValsOf(L.base)}

(* ---- interpreting a new constant ---- *)
MentionsC(s, p) == p \in ConstsOfS(s)
DupC(M, p, n) ==
  LET cp == SelectSeq(M.val, LAMBDA t : MentionsC(t[2], p))
  IN [M EXCEPT !.C = M.C \o <<n>>,
               !.val = M.val \o [j \in 1..Len(cp) |-> <<cp[j][1], Sub(cp[j][2], n, p), cp[j][3]>>]]
FreshC(M, n, v) ==
  LET ws == SetToSeq(M.W)
  IN [M EXCEPT !.C = M.C \o <<n>>, !.val = [j \in 1..Len(ws) |-> <<ws[j], Fof(n), v>>] \o M.val]
ConstCands(L, M, n) ==
  {DupC(M, M.C[j], n) : j \in 1..Len(M.C)} \cup {FreshC(M, n, v) : v \in ValsOf(L.base)}

RECURSIVE ExtendAll(_, _, _, _, _)
ExtendAll(L, Ms, src, nws, ncs) ==
  IF nws # {} THEN LET n == CHOOSE n \in nws : TRUE
                   IN ExtendAll(L, UNION {WorldCands(L, M, src, n) : M \in Ms}, src, nws \ {n}, ncs)
  ELSE IF ncs # {} THEN LET n == CHOOSE n \in ncs : TRUE
                        IN ExtendAll(L, UNION {ConstCands(L, M, n) : M \in Ms}, src, nws, ncs \ {n})
  ELSE Ms

(***************************************************************************)
(* The clauses                                                             *)
(***************************************************************************)
Cases == ndJsonDeserialize(IOEnv.CASES)

NodeW(c) == IF c.b0[1].w < 0 THEN 0 ELSE c.b0[1].w
SpareC == <<"c", 7, 0>>
SpareW == 9

Sound(c) ==
  LET L  == Logic(c.logic)
      Wb == WorldsOfB(c.b0) \cup {0}
      Cb == ConstsOfB(c.b0)
      Rb == AccessOfB(c.b0)
      Ws == IF c.kind = "modal" /\ Cardinality(Wb) <= 2 THEN {Wb, Wb \cup {SpareW}} ELSE {Wb}
      Cs == IF c.kind \in {"quant", "quantc"} THEN {Cb, Cb \cup {SpareC}} ELSE {Cb}
  IN \A W \in Ws : \A C \in Cs :
       \A M \in ModelsOver(c, L, W, C, IF c.kind = "modal" THEN Rels(L.frame, W, Rb, NodeW(c))
                                        ELSE {FrameClosure(L.frame, W, Rb) \cup Id(W)}) :
         SatB(L, M, c.b0) =>
           \E g \in 1..Len(c.exts) :
             LET nws == WorldsOfB(c.exts[g]) \ W
                 ncs == ConstsOfB(c.exts[g]) \ C
             IN \E M2 \in ExtendAll(L, {M}, NodeW(c), nws, ncs) : SatB(L, M2, c.exts[g])

Invertible(c) ==
  LET L == Logic(c.logic) IN
  \A g \in 1..Len(c.exts) :
    LET Bi == c.b0 \o c.exts[g]
        W  == WorldsOfB(Bi) \cup {0}
        C  == ConstsOfB(Bi)
        Rb == AccessOfB(Bi)
        RS == IF c.kind = "modal"
              THEN {R \in Rels(L.frame, W, Rb, NodeW(c)) : SuccR(R, NodeW(c)) = SuccR(Rb, NodeW(c))}
              ELSE {FrameClosure(L.frame, W, Rb) \cup Id(W)}
    IN \A M \in ModelsOver(c, L, W, C, RS) :
         SatB(L, M, Tail(Bi)) => SatNode(L, M, c.b0[1])

StaysAtWorld(c) ==
  c.kind = "modal" \/
  \A g \in 1..Len(c.exts) : \A j \in 1..Len(c.exts[g]) :
     LET x == c.exts[g][j] IN x.k = "s" /\ x.w = c.b0[1].w

NoFlags(c) == \A g \in 1..Len(c.exts) : \A j \in 1..Len(c.exts[g]) : c.exts[g][j].k \in {"s", "a"}

Fail(c, clause) == [id |-> c.id, logic |-> c.logic, kind |-> c.kind, sym |-> c.sym, neg |-> c.neg,
                    d |-> c.d, k |-> c.k, clause |-> clause, rules |-> c.rules]

Failures(c) ==
  IF c.err # "" THEN <<Fail(c, "Raised")>>
  ELSE IF c.norule = 1 /\ c.kind \in {"op", "opn", "opnn"} THEN <<Fail(c, "MissingRule")>>
  ELSE IF ~NoFlags(c) THEN <<Fail(c, "UnexpectedFlagNode")>>
  ELSE (IF StaysAtWorld(c) THEN <<>> ELSE <<Fail(c, "StaysAtWorld")>>)
       \o (IF Sound(c) THEN <<>> ELSE <<Fail(c, "Sound")>>)
       \o (IF c.complete = 0 \/ Invertible(c) THEN <<>> ELSE <<Fail(c, "Invertible")>>)

VARIABLES i, bad
B == INSTANCE Batch
Spec == B!BSpec
Publish == B!BPublish
Post == B!BPost
GenSpec == i = 0 /\ bad = <<>> /\ [][FALSE]_<<i, bad>>
=============================================================================
