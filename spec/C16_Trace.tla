----------------------------- MODULE C16_Trace -----------------------------
(***************************************************************************)
(* C16: a tableau's bookkeeping is consistent at every step.               *)
(* Trace validation (pipeline A): every recorded proof is a sequence       *)
(*   trunk, step, step, ..., (last step returns None), finish              *)
(* with the full projected state after each call; every consecutive pair   *)
(* is validated against the contract clauses of Tableau.tla.  One TLC      *)
(* state per event; a failing trace is skipped after its first rejected    *)
(* event and the rest of the file is still examined.                       *)
(***************************************************************************)
EXTENDS Logics, Tableau, Json, IOUtils

Traces == ndJsonDeserialize(IOEnv.CASES)

VARIABLES t, l, bad
vars == <<t, l, bad>>

Tr == Traces[t]
NEv == Len(Tr.events)

EventFail(tr, k) ==
  LET ev == tr.events[k]
      L == Logic(tr.logic)
      sf == StateFail(ev.state)
  IN IF sf # "" THEN sf
     ELSE IF ~VerdictConsistent(ev.state, TRUE) THEN "VerdictConsistent"
     ELSE IF k = 1
     THEN (IF ev.e # "trunk" THEN "FirstEventIsTrunk"
           ELSE IF ~TrunkOK(ev.state, tr.arg, L.style, L.modal) THEN "TrunkOK" ELSE "")
     ELSE StepFail(tr.events[k - 1].state, ev.state, ev.entry, ev.returned)

FinalFail(tr) ==
  IF tr.raised # "" THEN "Raised"
  ELSE IF tr.hasfinal = 0 THEN "NoFinishRecorded"
  ELSE FinishFail(tr.final, tr.events[Len(tr.events)].state)

Init == t = 1 /\ l = 1 /\ bad = <<>>
NextTrace == t' = t + 1 /\ l' = 1
Next ==
  /\ t <= Len(Traces)
  /\ IF l > NEv
     THEN LET ff == FinalFail(Tr) IN
          /\ NextTrace
          /\ bad' = IF ff = "" THEN bad ELSE Append(bad, [id |-> Tr.id, logic |-> Tr.logic, argstr |-> Tr.argstr,
                                                           event |-> l, clause |-> ff, rule |-> ""])
     ELSE LET ef == EventFail(Tr, l) IN
          IF ef = "" THEN l' = l + 1 /\ UNCHANGED <<t, bad>>
          ELSE /\ NextTrace
               /\ bad' = Append(bad, [id |-> Tr.id, logic |-> Tr.logic, argstr |-> Tr.argstr, event |-> l,
                                      clause |-> ef, rule |-> Tr.events[l].entry.rule])
Spec == Init /\ [][Next]_vars
Done == t > Len(Traces)
Publish == Done => TLCSet(1, bad)
Post == JsonSerialize(IOEnv.OUT, [n |-> Len(Traces), bad |-> TLCGet(1)])
=============================================================================
