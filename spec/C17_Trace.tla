----------------------------- MODULE C17_Trace -----------------------------
(***************************************************************************)
(* C17 conformance.  Generator: every call sequence of length DEPTH over   *)
(* the seven public calls.  Validator: every recorded call of the real     *)
(* Tableau (a) satisfies the contract clauses of Lifecycle.tla and (b) is  *)
(* the transition the model layer takes (mismatch that is not a contract   *)
(* violation = MODEL-DRIFT, reported separately).                          *)
(***************************************************************************)
EXTENDS LifecycleCore, SequencesExt, Json, IOUtils

Depth == JsonDeserialize(IOEnv.PAR).depth
CallSeq == <<"step", "finish", "build", "build_trunk", "set_argument", "set_logic", "add_rule">>
GenPost == LET seqs == SetToSeq([1..Depth -> 1..7])
               out == [j \in 1..Len(seqs) |-> [id |-> j, calls |-> [k \in 1..Depth |-> CallSeq[seqs[j][k]]]]]
           IN /\ TLCSet(2, 0)
              /\ PrintT(<<"GENERATED", Len(seqs)>>)
              /\ ndJsonSerialize(IOEnv.OUT, out)

Cases == ndJsonDeserialize(IOEnv.CASES)

\* recorded observation -> the Obs record shape
RObs(o) == [finished |-> o.finished, completed |-> o.completed, premature |-> o.premature, valid |-> o.valid,
            invalid |-> o.invalid, history_len |-> o.history_len, started |-> o.started]

RECURSIVE Walk(_, _, _, _, _)
\* returns <<>> or a one-element sequence with the first failure of the trace
Walk(tr, cf, st, a, j) ==
  IF j > Len(tr.calls) THEN <<>>
  ELSE LET ev == tr.calls[j]
           b == RObs(ev.obs)
           cl == ClauseFail(cf, ev.hasarg = 1, a, b, ev.call, ev.ret)
           m == Do(cf, st, ev.call)
       IN IF cl # "" THEN <<[id |-> tr.id, kind |-> "violation", clause |-> cl, event |-> j, call |-> ev.call,
                             ret |-> ev.ret, cfg |-> cf, pre |-> a, post |-> b]>>
          ELSE IF cf.tmo # 2 /\ (m.ret # ev.ret \/ Obs(cf, m.st) # b)
          THEN <<[id |-> tr.id, kind |-> "drift", clause |-> "ModelStep", event |-> j, call |-> ev.call,
                  ret |-> ev.ret, cfg |-> cf, pre |-> a, post |-> b]>>
          ELSE Walk(tr, cf, m.st, b, j + 1)

Failures(tr) ==
  LET cf == [mode |-> tr.mode, n |-> tr.n, valid |-> tr.valid, limit |-> tr.limit, tmo |-> tr.tmo]
      st0 == Init0(cf)
      a0 == RObs(tr.obs0)
  IN IF a0 # Obs(cf, st0)
     THEN <<[id |-> tr.id, kind |-> "drift", clause |-> "InitialState", event |-> 0, call |-> "", ret |-> "",
             cfg |-> cf, pre |-> a0, post |-> a0]>>
     ELSE Walk(tr, cf, st0, a0, 1)

VARIABLES i, bad
B == INSTANCE Batch
Spec == B!BSpec
Publish == B!BPublish
Post == B!BPost
GenSpec == i = 0 /\ bad = <<>> /\ [][FALSE]_<<i, bad>>
=============================================================================
