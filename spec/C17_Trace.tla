----------------------------- MODULE C17_Trace -----------------------------
(***************************************************************************)
(* C17 conformance.  Generator: every call sequence of length DEPTH over   *)
(* the seven public calls.  Validator: every recorded call of the real     *)
(* Tableau (a) satisfies the contract clauses of Lifecycle.tla and (b) is  *)
(* the transition the model layer takes (mismatch that is not a contract   *)
(* violation = MODEL-DRIFT, reported separately).                          *)
(***************************************************************************)
EXTENDS LifecycleCore, SequencesExt, Json, IOUtils

Depth == JsonDeserialize(IOEnv.PAR).depth
CallSeq == <<"step", "finish", "build", "build_trunk", "set_argument", "set_logic", "add_rule">>
GenPost == LET seqs == SetToSeq([1..Depth -> 1..7])
               out == [j \in 1..Len(seqs) |-> [id |-> j, calls |-> [k \in 1..Depth |-> CallSeq[seqs[j][k]]]]]
           IN /\ TLCSet(2, 0)
              /\ PrintT(<<"GENERATED", Len(seqs)>>)
              /\ ndJsonSerialize(IOEnv.OUT, out)

Cases == ndJsonDeserialize(IOEnv.CASES)

\* recorded observation -> the Obs record shape
RObs(o) == [finished |-> o.finished, completed |-> o.completed, premature |-> o.premature, valid |-> o.valid,
            invalid |-> o.invalid, history_len |-> o.history_len, started |-> o.started, argid |-> o.argid]

RECURSIVE Walk(_, _, _, _, _, _)
\* returns the first contract violation of the trace, preceded by its first model drift if any.  The model
\* state is driven by the calls alone (cfg.n / cfg.valid are measured on the real code), so a drift does not
\* stop the contract clauses from being evaluated on the rest of the trace.
Walk(tr, cf, st, a, j, drifted) ==
  IF j > Len(tr.calls) THEN <<>>
  ELSE LET ev == tr.calls[j]
           b == RObs(ev.obs)
           m == Do(cf, st, ev.call)
           cl == ClauseFail(cf, ev.hasarg = 1, st.started, st.ran, a, b, ev.call, ev.ret)
       IN IF cl # "" THEN <<[id |-> tr.id, kind |-> "violation", clause |-> cl, event |-> j, call |-> ev.call,
                             ret |-> ev.ret, cfg |-> cf, pre |-> a, post |-> b]>>
          ELSE IF ~drifted /\ cf.tmo # 2 /\ (m.ret # ev.ret \/ Obs(cf, m.st) # b)
          THEN <<[id |-> tr.id, kind |-> "drift", clause |-> "ModelStep", event |-> j, call |-> ev.call,
                  ret |-> ev.ret, cfg |-> cf, pre |-> a, post |-> b]>> \o Walk(tr, cf, m.st, b, j + 1, TRUE)
          ELSE Walk(tr, cf, m.st, b, j + 1, drifted)

Failures(tr) ==
  LET cf == [mode |-> tr.mode, n |-> tr.n, valid |-> tr.valid, limit |-> tr.limit, tmo |-> tr.tmo]
      st0 == Init0(cf)
      a0 == RObs(tr.obs0)
  IN IF a0 # Obs(cf, st0)
     THEN <<[id |-> tr.id, kind |-> "drift", clause |-> "InitialState", event |-> 0, call |-> "", ret |-> "",
             cfg |-> cf, pre |-> a0, post |-> a0]>> \o Walk(tr, cf, st0, a0, 1, TRUE)
     ELSE Walk(tr, cf, st0, a0, 1, FALSE)

VARIABLES i, bad
B == INSTANCE Batch
Spec == B!BSpec
Publish == B!BPublish
Post == B!BPost
GenSpec == i = 0 /\ bad = <<>> /\ [][FALSE]_<<i, bad>>
=============================================================================
