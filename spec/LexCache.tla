------------------------------ MODULE LexCache ------------------------------
(***************************************************************************)
(* C14 (model layer): the bounded construction cache of lexical items.     *)
(* Items 1..NI; every item has two keys: its spec key <<"s", k>> and its   *)
(* ident key <<"i", k>>.  The cache holds at most K items in a FIFO queue  *)
(* with an index key -> item and a reverse map item -> keys.               *)
(* Abstract view (what C14 demands): Call(key) always returns the item the *)
(* key denotes, whatever the history (hits, misses, evictions).            *)
(***************************************************************************)
EXTENDS Naturals, Sequences, FiniteSets, TLC

CONSTANTS NI, K
Items == 1..NI
Keys == {<<t, k>> : t \in {"s", "i"}, k \in Items}
Denotes(key) == key[2]

VARIABLES queue, idx, rev, last
vars == <<queue, idx, rev, last>>

Init == queue = <<>> /\ idx = <<>> /\ rev = <<>> /\ last = [key |-> <<"s", 0>>, res |-> 0]

Put(f, k, v) == [x \in DOMAIN f \cup {k} |-> IF x = k THEN v ELSE f[x]]
Drop(f, ks) == [x \in DOMAIN f \ ks |-> f[x]]

\* DequeCache.__setitem__(key, value) for a freshly constructed value
SetItem(q, ix, rv, key, item) ==
  IF item \in DOMAIN rv
  THEN [queue |-> q, idx |-> Put(ix, key, item), rev |-> Put(rv, item, rv[item] \cup {key})]
  ELSE LET full == Cardinality(DOMAIN rv) >= K /\ K > 0
           old == Head(q)
           q1 == IF full THEN Tail(q) ELSE q
           ix1 == IF full THEN Drop(ix, rv[old]) ELSE ix
           rv1 == IF full THEN Drop(rv, {old}) ELSE rv
       IN [queue |-> Append(q1, item), idx |-> Put(ix1, key, item), rev |-> Put(rv1, item, {key})]

\* call(cls, *spec): hit -> cached item; miss -> construct, store under the called key and the ident key
Call(key) ==
  IF key \in DOMAIN idx
  THEN /\ last' = [key |-> key, res |-> idx[key]]
       /\ UNCHANGED <<queue, idx, rev>>
  ELSE LET item == Denotes(key)
           c1 == SetItem(queue, idx, rev, key, item)
           c2 == SetItem(c1.queue, c1.idx, c1.rev, <<"i", item>>, item)
       IN /\ queue' = c2.queue /\ idx' = c2.idx /\ rev' = c2.rev
          /\ last' = [key |-> key, res |-> item]

Next == \E key \in Keys : Call(key)
Spec == Init /\ [][Next]_vars

\* what the property demands
Transparent == last.res = 0 \/ last.res = Denotes(last.key)
\* structural invariants of the cache itself
IndexCorrect == \A key \in DOMAIN idx : idx[key] = Denotes(key)
Bounded == Len(queue) <= K /\ Cardinality(DOMAIN rev) <= K
NoDanglingKeys == /\ DOMAIN idx = UNION {rev[it] : it \in DOMAIN rev}
                  /\ DOMAIN rev = {queue[j] : j \in 1..Len(queue)}
=============================================================================
