------------------------------- MODULE Logics -------------------------------
(***************************************************************************)
(* The 57 registered logics: which truth-functional base, which           *)
(* quantifier clause, which modal clause, which frame class, which node   *)
(* style.  Transcribed by family from the documentation (doc/logics/*.rst)*)
(* -- see DESIGN.md section 3.  A wrong cell here surfaces as a C04/C08   *)
(* disagreement and is triaged once.                                       *)
(***************************************************************************)
EXTENDS Semantics

LogicTable == [
  CPL    |-> [name |-> "CPL", base |-> "CPL", qc |-> "none", mc |-> "none", frame |-> "none", style |-> "plain", modal |-> FALSE, quantified |-> FALSE, unass |-> UnassOf("CPL")],
  CFOL   |-> [name |-> "CFOL", base |-> "CPL", qc |-> "minmax", mc |-> "none", frame |-> "none", style |-> "plain", modal |-> FALSE, quantified |-> TRUE, unass |-> UnassOf("CPL")],
  K      |-> [name |-> "K", base |-> "CPL", qc |-> "minmax", mc |-> "minmax", frame |-> "any", style |-> "plain", modal |-> TRUE, quantified |-> TRUE, unass |-> UnassOf("CPL")],
  D      |-> [name |-> "D", base |-> "CPL", qc |-> "minmax", mc |-> "minmax", frame |-> "serial", style |-> "plain", modal |-> TRUE, quantified |-> TRUE, unass |-> UnassOf("CPL")],
  T      |-> [name |-> "T", base |-> "CPL", qc |-> "minmax", mc |-> "minmax", frame |-> "reflexive", style |-> "plain", modal |-> TRUE, quantified |-> TRUE, unass |-> UnassOf("CPL")],
  S4     |-> [name |-> "S4", base |-> "CPL", qc |-> "minmax", mc |-> "minmax", frame |-> "preorder", style |-> "plain", modal |-> TRUE, quantified |-> TRUE, unass |-> UnassOf("CPL")],
  S5     |-> [name |-> "S5", base |-> "CPL", qc |-> "minmax", mc |-> "minmax", frame |-> "equivalence", style |-> "plain", modal |-> TRUE, quantified |-> TRUE, unass |-> UnassOf("CPL")],
  FDE    |-> [name |-> "FDE", base |-> "FDE", qc |-> "minmax", mc |-> "none", frame |-> "none", style |-> "desig", modal |-> FALSE, quantified |-> TRUE, unass |-> UnassOf("FDE")],
  KFDE   |-> [name |-> "KFDE", base |-> "FDE", qc |-> "minmax", mc |-> "minmax", frame |-> "any", style |-> "desig", modal |-> TRUE, quantified |-> TRUE, unass |-> UnassOf("FDE")],
  TFDE   |-> [name |-> "TFDE", base |-> "FDE", qc |-> "minmax", mc |-> "minmax", frame |-> "reflexive", style |-> "desig", modal |-> TRUE, quantified |-> TRUE, unass |-> UnassOf("FDE")],
  S4FDE  |-> [name |-> "S4FDE", base |-> "FDE", qc |-> "minmax", mc |-> "minmax", frame |-> "preorder", style |-> "desig", modal |-> TRUE, quantified |-> TRUE, unass |-> UnassOf("FDE")],
  S5FDE  |-> [name |-> "S5FDE", base |-> "FDE", qc |-> "minmax", mc |-> "minmax", frame |-> "equivalence", style |-> "desig", modal |-> TRUE, quantified |-> TRUE, unass |-> UnassOf("FDE")],
  K3     |-> [name |-> "K3", base |-> "K3", qc |-> "minmax", mc |-> "none", frame |-> "none", style |-> "desig", modal |-> FALSE, quantified |-> TRUE, unass |-> UnassOf("K3")],
  KK3    |-> [name |-> "KK3", base |-> "K3", qc |-> "minmax", mc |-> "minmax", frame |-> "any", style |-> "desig", modal |-> TRUE, quantified |-> TRUE, unass |-> UnassOf("K3")],
  TK3    |-> [name |-> "TK3", base |-> "K3", qc |-> "minmax", mc |-> "minmax", frame |-> "reflexive", style |-> "desig", modal |-> TRUE, quantified |-> TRUE, unass |-> UnassOf("K3")],
  S4K3   |-> [name |-> "S4K3", base |-> "K3", qc |-> "minmax", mc |-> "minmax", frame |-> "preorder", style |-> "desig", modal |-> TRUE, quantified |-> TRUE, unass |-> UnassOf("K3")],
  S5K3   |-> [name |-> "S5K3", base |-> "K3", qc |-> "minmax", mc |-> "minmax", frame |-> "equivalence", style |-> "desig", modal |-> TRUE, quantified |-> TRUE, unass |-> UnassOf("K3")],
  LP     |-> [name |-> "LP", base |-> "LP", qc |-> "minmax", mc |-> "none", frame |-> "none", style |-> "desig", modal |-> FALSE, quantified |-> TRUE, unass |-> UnassOf("LP")],
  KLP    |-> [name |-> "KLP", base |-> "LP", qc |-> "minmax", mc |-> "minmax", frame |-> "any", style |-> "desig", modal |-> TRUE, quantified |-> TRUE, unass |-> UnassOf("LP")],
  TLP    |-> [name |-> "TLP", base |-> "LP", qc |-> "minmax", mc |-> "minmax", frame |-> "reflexive", style |-> "desig", modal |-> TRUE, quantified |-> TRUE, unass |-> UnassOf("LP")],
  S4LP   |-> [name |-> "S4LP", base |-> "LP", qc |-> "minmax", mc |-> "minmax", frame |-> "preorder", style |-> "desig", modal |-> TRUE, quantified |-> TRUE, unass |-> UnassOf("LP")],
  S5LP   |-> [name |-> "S5LP", base |-> "LP", qc |-> "minmax", mc |-> "minmax", frame |-> "equivalence", style |-> "desig", modal |-> TRUE, quantified |-> TRUE, unass |-> UnassOf("LP")],
  L3     |-> [name |-> "L3", base |-> "L3", qc |-> "minmax", mc |-> "none", frame |-> "none", style |-> "desig", modal |-> FALSE, quantified |-> TRUE, unass |-> UnassOf("L3")],
  KL3    |-> [name |-> "KL3", base |-> "L3", qc |-> "minmax", mc |-> "minmax", frame |-> "any", style |-> "desig", modal |-> TRUE, quantified |-> TRUE, unass |-> UnassOf("L3")],
  TL3    |-> [name |-> "TL3", base |-> "L3", qc |-> "minmax", mc |-> "minmax", frame |-> "reflexive", style |-> "desig", modal |-> TRUE, quantified |-> TRUE, unass |-> UnassOf("L3")],
  S4L3   |-> [name |-> "S4L3", base |-> "L3", qc |-> "minmax", mc |-> "minmax", frame |-> "preorder", style |-> "desig", modal |-> TRUE, quantified |-> TRUE, unass |-> UnassOf("L3")],
  S5L3   |-> [name |-> "S5L3", base |-> "L3", qc |-> "minmax", mc |-> "minmax", frame |-> "equivalence", style |-> "desig", modal |-> TRUE, quantified |-> TRUE, unass |-> UnassOf("L3")],
  RM3    |-> [name |-> "RM3", base |-> "RM3", qc |-> "minmax", mc |-> "none", frame |-> "none", style |-> "desig", modal |-> FALSE, quantified |-> TRUE, unass |-> UnassOf("RM3")],
  KRM3   |-> [name |-> "KRM3", base |-> "RM3", qc |-> "minmax", mc |-> "minmax", frame |-> "any", style |-> "desig", modal |-> TRUE, quantified |-> TRUE, unass |-> UnassOf("RM3")],
  TRM3   |-> [name |-> "TRM3", base |-> "RM3", qc |-> "minmax", mc |-> "minmax", frame |-> "reflexive", style |-> "desig", modal |-> TRUE, quantified |-> TRUE, unass |-> UnassOf("RM3")],
  S4RM3  |-> [name |-> "S4RM3", base |-> "RM3", qc |-> "minmax", mc |-> "minmax", frame |-> "preorder", style |-> "desig", modal |-> TRUE, quantified |-> TRUE, unass |-> UnassOf("RM3")],
  S5RM3  |-> [name |-> "S5RM3", base |-> "RM3", qc |-> "minmax", mc |-> "minmax", frame |-> "equivalence", style |-> "desig", modal |-> TRUE, quantified |-> TRUE, unass |-> UnassOf("RM3")],
  K3W    |-> [name |-> "K3W", base |-> "K3W", qc |-> "minmax", mc |-> "none", frame |-> "none", style |-> "desig", modal |-> FALSE, quantified |-> TRUE, unass |-> UnassOf("K3W")],
  KK3W   |-> [name |-> "KK3W", base |-> "K3W", qc |-> "minmax", mc |-> "minmax", frame |-> "any", style |-> "desig", modal |-> TRUE, quantified |-> TRUE, unass |-> UnassOf("K3W")],
  TK3W   |-> [name |-> "TK3W", base |-> "K3W", qc |-> "minmax", mc |-> "minmax", frame |-> "reflexive", style |-> "desig", modal |-> TRUE, quantified |-> TRUE, unass |-> UnassOf("K3W")],
  S4K3W  |-> [name |-> "S4K3W", base |-> "K3W", qc |-> "minmax", mc |-> "minmax", frame |-> "preorder", style |-> "desig", modal |-> TRUE, quantified |-> TRUE, unass |-> UnassOf("K3W")],
  S5K3W  |-> [name |-> "S5K3W", base |-> "K3W", qc |-> "minmax", mc |-> "minmax", frame |-> "equivalence", style |-> "desig", modal |-> TRUE, quantified |-> TRUE, unass |-> UnassOf("K3W")],
  B3E    |-> [name |-> "B3E", base |-> "B3E", qc |-> "minmax", mc |-> "none", frame |-> "none", style |-> "desig", modal |-> FALSE, quantified |-> TRUE, unass |-> UnassOf("B3E")],
  KB3E   |-> [name |-> "KB3E", base |-> "B3E", qc |-> "minmax", mc |-> "minmax", frame |-> "any", style |-> "desig", modal |-> TRUE, quantified |-> TRUE, unass |-> UnassOf("B3E")],
  TB3E   |-> [name |-> "TB3E", base |-> "B3E", qc |-> "minmax", mc |-> "minmax", frame |-> "reflexive", style |-> "desig", modal |-> TRUE, quantified |-> TRUE, unass |-> UnassOf("B3E")],
  S4B3E  |-> [name |-> "S4B3E", base |-> "B3E", qc |-> "minmax", mc |-> "minmax", frame |-> "preorder", style |-> "desig", modal |-> TRUE, quantified |-> TRUE, unass |-> UnassOf("B3E")],
  S5B3E  |-> [name |-> "S5B3E", base |-> "B3E", qc |-> "minmax", mc |-> "minmax", frame |-> "equivalence", style |-> "desig", modal |-> TRUE, quantified |-> TRUE, unass |-> UnassOf("B3E")],
  G3     |-> [name |-> "G3", base |-> "G3", qc |-> "minmax", mc |-> "none", frame |-> "none", style |-> "desig", modal |-> FALSE, quantified |-> TRUE, unass |-> UnassOf("G3")],
  KG3    |-> [name |-> "KG3", base |-> "G3", qc |-> "minmax", mc |-> "minmax", frame |-> "any", style |-> "desig", modal |-> TRUE, quantified |-> TRUE, unass |-> UnassOf("G3")],
  TG3    |-> [name |-> "TG3", base |-> "G3", qc |-> "minmax", mc |-> "minmax", frame |-> "reflexive", style |-> "desig", modal |-> TRUE, quantified |-> TRUE, unass |-> UnassOf("G3")],
  S4G3   |-> [name |-> "S4G3", base |-> "G3", qc |-> "minmax", mc |-> "minmax", frame |-> "preorder", style |-> "desig", modal |-> TRUE, quantified |-> TRUE, unass |-> UnassOf("G3")],
  S5G3   |-> [name |-> "S5G3", base |-> "G3", qc |-> "minmax", mc |-> "minmax", frame |-> "equivalence", style |-> "desig", modal |-> TRUE, quantified |-> TRUE, unass |-> UnassOf("G3")],
  K3WQ   |-> [name |-> "K3WQ", base |-> "K3W", qc |-> "k3wq", mc |-> "none", frame |-> "none", style |-> "desig", modal |-> FALSE, quantified |-> TRUE, unass |-> UnassOf("K3W")],
  KK3WQ  |-> [name |-> "KK3WQ", base |-> "K3W", qc |-> "k3wq", mc |-> "k3wq", frame |-> "any", style |-> "desig", modal |-> TRUE, quantified |-> TRUE, unass |-> UnassOf("K3W")],
  TK3WQ  |-> [name |-> "TK3WQ", base |-> "K3W", qc |-> "k3wq", mc |-> "k3wq", frame |-> "reflexive", style |-> "desig", modal |-> TRUE, quantified |-> TRUE, unass |-> UnassOf("K3W")],
  S4K3WQ |-> [name |-> "S4K3WQ", base |-> "K3W", qc |-> "k3wq", mc |-> "k3wq", frame |-> "preorder", style |-> "desig", modal |-> TRUE, quantified |-> TRUE, unass |-> UnassOf("K3W")],
  S5K3WQ |-> [name |-> "S5K3WQ", base |-> "K3W", qc |-> "k3wq", mc |-> "k3wq", frame |-> "equivalence", style |-> "desig", modal |-> TRUE, quantified |-> TRUE, unass |-> UnassOf("K3W")],
  MH     |-> [name |-> "MH", base |-> "MH", qc |-> "mh", mc |-> "none", frame |-> "none", style |-> "desig", modal |-> FALSE, quantified |-> TRUE, unass |-> UnassOf("MH")],
  NH     |-> [name |-> "NH", base |-> "NH", qc |-> "nh", mc |-> "none", frame |-> "none", style |-> "desig", modal |-> FALSE, quantified |-> TRUE, unass |-> UnassOf("NH")],
  GO     |-> [name |-> "GO", base |-> "GO", qc |-> "go", mc |-> "none", frame |-> "none", style |-> "desig", modal |-> FALSE, quantified |-> TRUE, unass |-> UnassOf("GO")],
  S4GO   |-> [name |-> "S4GO", base |-> "GO", qc |-> "go", mc |-> "go", frame |-> "preorder", style |-> "desig", modal |-> TRUE, quantified |-> TRUE, unass |-> UnassOf("GO")],
  P3     |-> [name |-> "P3", base |-> "P3", qc |-> "none", mc |-> "none", frame |-> "none", style |-> "desig", modal |-> FALSE, quantified |-> FALSE, unass |-> UnassOf("P3")]
]

LogicNames == DOMAIN LogicTable
Logic(name) == LogicTable[name]

ASSUME Cardinality(LogicNames) = 57
ASSUME \A n \in LogicNames : LogicTable[n].name = n /\ LogicTable[n].base \in Bases
\* a modal extension has exactly the truth-functional tables of its base:
\* by construction (both read Tab(base, ...)); stated for the record
ModalBaseEqual == \A n \in LogicNames : \A m \in LogicNames :
   LogicTable[n].base = LogicTable[m].base =>
     \A op \in TruthFunctional : \A a \in [1..ArityOf(op) -> ValsOf(LogicTable[n].base)] :
        Tab(LogicTable[n].base, op, a) = Tab(LogicTable[m].base, op, a)
=============================================================================
